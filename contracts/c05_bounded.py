"""Tier B (bounded stand-in) harnesses for

  C05  signing standard inputs yields valid canonical signatures, changing nothing else
  C06  validation is tamper-evident: signatures bind what their hash type commits

Run-time contracts evaluated on the REAL pycoin code (create_tx / Tx.sign / sign_tx / Keychain /
is_solution_ok / bad_solution_count).  The oracle is independent of the code under test:

  * own secp256k1 arithmetic (Jacobian), ECDSA verify / sign / key recovery
  * own strict-DER (BIP66) parser, low-S test against the hard-coded group order n
  * own script push parser (push-only + minimal pushes)
  * own signature-hash references: legacy (Satoshi), BIP143, BCH fork-id (BIP143 | 0x40),
    BTG fork-id (BIP143 with 79<<8 in the hash-type word)
  * a "commitment view" table (what each hash type commits) taken from the property text / BIPs

Nothing here edits /repo; nothing is written to disk.
"""
import hashlib
import itertools
import random
import struct

from pyvc.bounded import bounded, Tally

# ----------------------------------------------------------------------------------------------
# independent reference: secp256k1
# ----------------------------------------------------------------------------------------------

P = 0xFFFFFFFFFFFFFFFFFFFFFFFFFFFFFFFFFFFFFFFFFFFFFFFFFFFFFFFEFFFFFC2F
N = 0xFFFFFFFFFFFFFFFFFFFFFFFFFFFFFFFEBAAEDCE6AF48A03BBFD25E8CD0364141
GX = 0x79BE667EF9DCBBAC55A06295CE870B07029BFCDB2DCE28D959F2815B16F81798
GY = 0x483ADA7726A3C4655DA4FBFC0E1108A8FD17B448A68554199C47D08FFB10D4B8
HALF_N = N // 2


def _jdbl(pt):
    if pt is None:
        return None
    X, Y, Z = pt
    if Y == 0:
        return None
    YY = Y * Y % P
    S = 4 * X * YY % P
    M = 3 * X * X % P
    X3 = (M * M - 2 * S) % P
    Y3 = (M * (S - X3) - 8 * YY * YY) % P
    Z3 = 2 * Y * Z % P
    return (X3, Y3, Z3)


def _jadd_aff(pt, q):
    """Jacobian + affine"""
    if q is None:
        return pt
    if pt is None:
        return (q[0], q[1], 1)
    X1, Y1, Z1 = pt
    x2, y2 = q
    Z1Z1 = Z1 * Z1 % P
    U2 = x2 * Z1Z1 % P
    S2 = y2 * Z1 * Z1Z1 % P
    H = (U2 - X1) % P
    R = (S2 - Y1) % P
    if H == 0:
        if R == 0:
            return _jdbl(pt)
        return None
    HH = H * H % P
    HHH = H * HH % P
    V = X1 * HH % P
    X3 = (R * R - HHH - 2 * V) % P
    Y3 = (R * (V - X3) - Y1 * HHH) % P
    Z3 = Z1 * H % P
    return (X3, Y3, Z3)


def _to_affine(pt):
    if pt is None:
        return None
    X, Y, Z = pt
    zi = pow(Z, -1, P)
    zi2 = zi * zi % P
    return (X * zi2 % P, Y * zi2 * zi % P)


def _aff_add(a, b):
    return _to_affine(_jadd_aff(None if a is None else (a[0], a[1], 1), b))


def _aff_neg(a):
    return None if a is None else (a[0], (-a[1]) % P)


def ec_mul2(u1, A, u2, B):
    """u1*A + u2*B (affine in, affine out) by Shamir's trick"""
    u1 %= N
    u2 %= N
    AB = _aff_add(A, B)
    acc = None
    for i in range(max(u1.bit_length(), u2.bit_length()) - 1, -1, -1):
        acc = _jdbl(acc)
        b1 = (u1 >> i) & 1
        b2 = (u2 >> i) & 1
        if b1 and b2:
            if AB is None:
                pass
            else:
                acc = _jadd_aff(acc, AB)
        elif b1:
            acc = _jadd_aff(acc, A)
        elif b2:
            acc = _jadd_aff(acc, B)
    return _to_affine(acc)


G = (GX, GY)


def ec_mul(k, A=G):
    return ec_mul2(k, A, 0, A)


def on_curve(pt):
    x, y = pt
    return 0 <= x < P and 0 <= y < P and (y * y - x * x * x - 7) % P == 0


def ecdsa_verify(Q, z, r, s):
    if not (1 <= r < N and 1 <= s < N):
        return False
    w = pow(s, -1, N)
    R = ec_mul2(z * w % N, G, r * w % N, Q)
    return R is not None and R[0] % N == r


def ecdsa_sign(d, z, tag=b""):
    """deterministic, low-S; the nonce is a hash (any nonce is fine for a reference signer)"""
    ctr = 0
    while True:
        k = int.from_bytes(hashlib.sha256(b"c05-k" + tag + d.to_bytes(32, "big") + z.to_bytes(32, "big") + bytes([ctr])).digest(), "big") % N
        ctr += 1
        if k == 0:
            continue
        R = ec_mul(k)
        r = R[0] % N
        if r == 0:
            continue
        s = pow(k, -1, N) * (z + r * d) % N
        if s == 0:
            continue
        if s > HALF_N:
            s = N - s
        return r, s


def lift_x(x, odd):
    y = pow((x * x * x + 7) % P, (P + 1) // 4, P)
    if (y * y - x * x * x - 7) % P != 0:
        return None
    if (y & 1) != odd:
        y = P - y
    return (x, y)


def sec_to_point(sec):
    if len(sec) == 33 and sec[0] in (2, 3):
        x = int.from_bytes(sec[1:], "big")
        if x >= P:
            return None
        return lift_x(x, sec[0] & 1)
    if len(sec) == 65 and sec[0] == 4:
        pt = (int.from_bytes(sec[1:33], "big"), int.from_bytes(sec[33:], "big"))
        return pt if on_curve(pt) else None
    return None


def point_to_sec(pt, compressed):
    x, y = pt
    if compressed:
        return bytes([2 + (y & 1)]) + x.to_bytes(32, "big")
    return b"\x04" + x.to_bytes(32, "big") + y.to_bytes(32, "big")


# ----------------------------------------------------------------------------------------------
# independent reference: DER, pushes, hashes
# ----------------------------------------------------------------------------------------------

def sha256(b):
    return hashlib.sha256(b).digest()


def dsha(b):
    return sha256(sha256(b))


def h160(b):
    return hashlib.new("ripemd160", sha256(b)).digest()


def strict_der_parse(blob):
    """BIP66 IsValidSignatureEncoding on blob = DER || hashtype; returns (r, s, hashtype) or None"""
    ls = len(blob)
    if ls < 9 or ls > 73:
        return None
    if blob[0] != 0x30 or blob[1] != ls - 3:
        return None
    lr = blob[3]
    if 5 + lr >= ls:
        return None
    lsv = blob[5 + lr]
    if lr + lsv + 7 != ls:
        return None
    if blob[2] != 2 or lr == 0 or blob[4] & 0x80:
        return None
    if lr > 1 and blob[4] == 0 and not (blob[5] & 0x80):
        return None
    if blob[lr + 4] != 2 or lsv == 0 or blob[lr + 6] & 0x80:
        return None
    if lsv > 1 and blob[lr + 6] == 0 and not (blob[lr + 7] & 0x80):
        return None
    r = int.from_bytes(blob[4:4 + lr], "big")
    s = int.from_bytes(blob[lr + 6:lr + 6 + lsv], "big")
    return r, s, blob[-1]


def der_int(v):
    b = v.to_bytes((v.bit_length() + 7) // 8 or 1, "big")
    if b[0] & 0x80:
        b = b"\0" + b
    return b"\x02" + bytes([len(b)]) + b


def der_sig(r, s, hashtype):
    body = der_int(r) + der_int(s)
    return b"\x30" + bytes([len(body)]) + body + bytes([hashtype])


def push(data):
    """minimal push of data"""
    ld = len(data)
    if ld == 0:
        return b"\x00"
    if ld == 1 and 1 <= data[0] <= 16:
        return bytes([0x50 + data[0]])
    if ld == 1 and data[0] == 0x81:
        return b"\x4f"
    if ld <= 75:
        return bytes([ld]) + data
    if ld <= 255:
        return b"\x4c" + bytes([ld]) + data
    return b"\x4d" + struct.pack("<H", ld) + data


def small_int_op(v):
    if 1 <= v <= 16:
        return bytes([0x50 + v])
    b = v.to_bytes((v.bit_length() + 8) // 8, "little")  # script number, positive
    if b[-1] == 0 and not (len(b) > 1 and b[-2] & 0x80):
        b = b[:-1]
    return bytes([len(b)]) + b


def parse_pushes(script):
    """scriptSig -> list of pushed items, or None unless push-only with minimal pushes"""
    out = []
    pc = 0
    ln = len(script)
    while pc < ln:
        op = script[pc]
        pc += 1
        if op == 0:
            out.append(b"")
            continue
        if 1 <= op <= 75:
            n = op
        elif op == 0x4c:
            if pc + 1 > ln:
                return None
            n = script[pc]
            pc += 1
            if n <= 75:
                return None
        elif op == 0x4d:
            if pc + 2 > ln:
                return None
            n = struct.unpack("<H", script[pc:pc + 2])[0]
            pc += 2
            if n <= 255:
                return None
        elif op == 0x4f:
            out.append(b"\x81")
            continue
        elif 0x51 <= op <= 0x60:
            out.append(bytes([op - 0x50]))
            continue
        else:
            return None
        if pc + n > ln:
            return None
        d = script[pc:pc + n]
        pc += n
        if n == 1 and (1 <= d[0] <= 16 or d[0] == 0x81):
            return None
        out.append(d)
    return out


def varint(n):
    if n < 0xfd:
        return bytes([n])
    if n <= 0xffff:
        return b"\xfd" + struct.pack("<H", n)
    if n <= 0xffffffff:
        return b"\xfe" + struct.pack("<L", n)
    return b"\xff" + struct.pack("<Q", n)


def varstr(b):
    return varint(len(b)) + b


SIGHASH_ALL, SIGHASH_NONE, SIGHASH_SINGLE, SIGHASH_FORKID, SIGHASH_ACP = 1, 2, 3, 0x40, 0x80
HASH_TYPES = [1, 2, 3, 0x81, 0x82, 0x83]
HT_NAMES = {1: "ALL", 2: "NONE", 3: "SINGLE", 0x81: "ALL|ACP", 0x82: "NONE|ACP", 0x83: "SINGLE|ACP"}


# a snapshot is a plain dict:
#  version, lock_time, ins=[(prev_hash, prev_index, sequence, script, witness_tuple)], outs=[(value, script)],
#  unspents=[(value, script) | None]

def snap(tx):
    return {
        "version": tx.version,
        "lock_time": tx.lock_time,
        "ins": [(bytes(i.previous_hash), i.previous_index, i.sequence, bytes(i.script), tuple(bytes(w) for w in i.witness)) for i in tx.txs_in],
        "outs": [(o.coin_value, bytes(o.script)) for o in tx.txs_out],
        "unspents": [None if u is None else (u.coin_value, bytes(u.script)) for u in tx.unspents],
    }


def ref_legacy_sighash(sn, p, script_code, ht):
    base = ht & 0x1f
    acp = ht & SIGHASH_ACP
    ins, outs = sn["ins"], sn["outs"]
    if base == SIGHASH_SINGLE and p >= len(outs):
        return 1 << 248  # uint256 "one", read as a big-endian message
    # (no OP_CODESEPARATOR and no signature inside the standard script codes, so no FindAndDelete is needed)
    ser_ins = []
    for j, (h, idx, seq, _scr, _w) in enumerate(ins):
        if j == p:
            ser_ins.append(h + struct.pack("<L", idx) + varstr(script_code) + struct.pack("<L", seq))
        elif not acp:
            if base in (SIGHASH_NONE, SIGHASH_SINGLE):
                seq = 0
            ser_ins.append(h + struct.pack("<L", idx) + varstr(b"") + struct.pack("<L", seq))
    if base == SIGHASH_NONE:
        ser_outs = []
    elif base == SIGHASH_SINGLE:
        ser_outs = [struct.pack("<Q", 0xFFFFFFFFFFFFFFFF) + varstr(b"")] * p + [struct.pack("<Q", outs[p][0]) + varstr(outs[p][1])]
    else:
        ser_outs = [struct.pack("<Q", v) + varstr(s) for v, s in outs]
    blob = (struct.pack("<L", sn["version"]) + varint(len(ser_ins)) + b"".join(ser_ins) + varint(len(ser_outs)) + b"".join(ser_outs)
            + struct.pack("<L", sn["lock_time"]) + struct.pack("<L", ht))
    return int.from_bytes(dsha(blob), "big")


def ref_bip143_sighash(sn, p, script_code, amount, ht, ht_word):
    base = ht & 0x1f
    acp = ht & SIGHASH_ACP
    ins, outs = sn["ins"], sn["outs"]
    z32 = b"\0" * 32
    hp = z32 if acp else dsha(b"".join(h + struct.pack("<L", idx) for h, idx, _s, _c, _w in ins))
    hs = z32 if (acp or base in (SIGHASH_NONE, SIGHASH_SINGLE)) else dsha(b"".join(struct.pack("<L", s) for _h, _i, s, _c, _w in ins))
    if base == SIGHASH_NONE:
        ho = z32
    elif base == SIGHASH_SINGLE:
        ho = dsha(struct.pack("<Q", outs[p][0]) + varstr(outs[p][1])) if p < len(outs) else z32
    else:
        ho = dsha(b"".join(struct.pack("<Q", v) + varstr(s) for v, s in outs))
    h, idx, seq, _c, _w = ins[p]
    blob = (struct.pack("<L", sn["version"]) + hp + hs + h + struct.pack("<L", idx) + varstr(script_code) + struct.pack("<Q", amount)
            + struct.pack("<L", seq) + ho + struct.pack("<L", sn["lock_time"]) + struct.pack("<L", ht_word))
    return int.from_bytes(dsha(blob), "big")


# ----------------------------------------------------------------------------------------------
# puzzles (harness-side knowledge of what is being spent)
# ----------------------------------------------------------------------------------------------

KINDS = ["p2pk", "p2pkh", "ms", "p2sh_ms", "p2wsh_ms", "p2sh_p2wsh_ms", "p2wpkh", "p2sh_p2wpkh"]
WITNESS_KINDS = {"p2wsh_ms", "p2sh_p2wsh_ms", "p2wpkh", "p2sh_p2wpkh"}
MS_KINDS = ["ms", "p2sh_ms", "p2wsh_ms", "p2sh_p2wsh_ms"]


class Puzzle(object):
    def __init__(self, kind, m, key_ids, secs):
        self.kind, self.m, self.key_ids, self.secs = kind, m, list(key_ids), list(secs)
        self.n = len(secs)
        self.witness = kind in WITNESS_KINDS
        self.lookup_scripts = []
        self.redeem = None      # pushed last in scriptSig
        self.wscript = None     # last witness item
        if kind == "p2pk":
            self.script = push(secs[0]) + b"\xac"
            self.script_code = self.script
        elif kind == "p2pkh":
            self.script = b"\x76\xa9\x14" + h160(secs[0]) + b"\x88\xac"
            self.script_code = self.script
        elif kind in ("p2wpkh", "p2sh_p2wpkh"):
            prog = b"\x00\x14" + h160(secs[0])
            self.script_code = b"\x76\xa9\x14" + h160(secs[0]) + b"\x88\xac"
            if kind == "p2wpkh":
                self.script = prog
            else:
                self.redeem = prog
                self.script = b"\xa9\x14" + h160(prog) + b"\x87"
                self.lookup_scripts = [prog]
        else:
            ms = small_int_op(m) + b"".join(push(s) for s in secs) + small_int_op(len(secs)) + b"\xae"
            self.ms_script = ms
            self.script_code = ms
            if kind == "ms":
                self.script = ms
            elif kind == "p2sh_ms":
                self.redeem = ms
                self.script = b"\xa9\x14" + h160(ms) + b"\x87"
                self.lookup_scripts = [ms]
            else:
                prog = b"\x00\x20" + sha256(ms)
                self.wscript = ms
                if kind == "p2wsh_ms":
                    self.script = prog
                    self.lookup_scripts = [ms]
                else:
                    self.redeem = prog
                    self.script = b"\xa9\x14" + h160(prog) + b"\x87"
                    self.lookup_scripts = [ms, prog]

    def label(self):
        c = "c" if len(self.secs[0]) == 33 else "u"
        if self.kind in MS_KINDS:
            return "%s:%dof%d:%s" % (self.kind, self.m, self.n, c)
        return "%s:%s" % (self.kind, c)

    def expected_script_sig_for_witness(self):
        return push(self.redeem) if self.redeem is not None else b""


def sighash_for(pz, sn, p, ht, fork):
    """the reference digest a signature with hash-type byte `ht` must sign for input p, or None if not admissible"""
    u = sn["unspents"][p] if p < len(sn["unspents"]) else None
    if fork is not None:
        if not ht & SIGHASH_FORKID:
            return None
        if u is None:
            return None
        return ref_bip143_sighash(sn, p, pz.script_code, u[0], ht, ht | (fork << 8))
    if pz.witness:
        if u is None:
            return None
        return ref_bip143_sighash(sn, p, pz.script_code, u[0], ht, ht)
    return ref_legacy_sighash(sn, p, pz.script_code, ht)


def unlocking_items(pz, sn, p):
    """-> (items, why_not)   stack items offered to the innermost script, after checking the standard wrapping"""
    _h, _i, _s, script_sig, wit = sn["ins"][p]
    if pz.witness:
        if script_sig != pz.expected_script_sig_for_witness():
            return None, "layout: scriptSig of witness input is not the canonical (empty / single redeem push)"
        items = list(wit)
        if pz.wscript is not None:
            if not items or items[-1] != pz.wscript:
                return None, "layout: last witness item is not the witness script"
            items = items[:-1]
        return items, None
    if wit:
        return None, "layout: witness on a non-witness input"
    items = parse_pushes(script_sig)
    if items is None:
        return None, "layout: scriptSig not push-only / not minimally pushed"
    if pz.redeem is not None:
        if not items or items[-1] != pz.redeem:
            return None, "layout: last scriptSig push is not the redeem script"
        items = items[:-1]
    return items, None


def ref_check_input(pz, sn, p, fork, want_ht=None):
    """Independent check that input p is a STANDARD-valid spend of puzzle pz.
    -> (ok, reason, sig_records)  with sig_records = [(blob, r, s, ht, digest)]"""
    u = sn["unspents"][p] if p < len(sn["unspents"]) else None
    if u is None or u[1] != pz.script:
        return False, "unspent missing or not the puzzle", []
    items, why = unlocking_items(pz, sn, p)
    if items is None:
        return False, why, []
    if pz.kind == "p2pk":
        if len(items) != 1:
            return False, "layout: p2pk wants exactly [sig]", []
        sigs = items
    elif pz.kind in ("p2pkh", "p2wpkh", "p2sh_p2wpkh"):
        if len(items) != 2 or items[1] != pz.secs[0]:
            return False, "layout: wants exactly [sig, pubkey]", []
        sigs = items[:1]
    else:
        if len(items) != pz.m + 1 or items[0] != b"":
            return False, "layout: multisig wants [empty dummy, m signatures]", []
        sigs = items[1:]
    recs = []
    for blob in sigs:
        parsed = strict_der_parse(blob)
        if parsed is None:
            return False, "der: signature is not strict DER", recs
        r, s, ht = parsed
        if not (1 <= r < N and 1 <= s < N):
            return False, "der: r or s out of range", recs
        if s > HALF_N:
            return False, "high-s: s > n/2", recs
        if want_ht is not None and ht != want_ht:
            return False, "hashtype: signature carries 0x%02x, wanted 0x%02x" % (ht, want_ht), recs
        z = sighash_for(pz, sn, p, ht, fork)
        if z is None:
            return False, "hashtype: not admissible on this coin", recs
        recs.append((blob, r, s, ht, z))
    # CHECKMULTISIG order: signatures must match keys as a subsequence, distinct keys
    ki = 0
    for blob, r, s, ht, z in recs:
        while ki < len(pz.secs):
            Q = sec_to_point(pz.secs[ki])
            ki += 1
            if Q is not None and ecdsa_verify(Q, z, r, s):
                break
        else:
            return False, "ecdsa: signature does not verify (in key order) against the reference digest", recs
    return True, None, recs


# ----------------------------------------------------------------------------------------------
# network contexts, tx building, signing mechanisms
# ----------------------------------------------------------------------------------------------

NETCODES = ["BTC", "XTN", "LTC", "BCH", "BTG"]
FORK_ID = {"BCH": 0, "BTG": 79}
MECHS = ["lookup", "wif", "keychain"]


def _flags():
    from pycoin.satoshi import flags as F
    std = 0
    for name in ("VERIFY_P2SH", "VERIFY_STRICTENC", "VERIFY_DERSIG", "VERIFY_LOW_S", "VERIFY_NULLDUMMY", "VERIFY_SIGPUSHONLY",
                 "VERIFY_MINIMALDATA", "VERIFY_DISCOURAGE_UPGRADABLE_NOPS", "VERIFY_CLEANSTACK", "VERIFY_CHECKLOCKTIMEVERIFY",
                 "VERIFY_CHECKSEQUENCEVERIFY", "VERIFY_WITNESS", "VERIFY_DISCOURAGE_UPGRADABLE_WITNESS_PROGRAM", "VERIFY_MINIMALIF",
                 "VERIFY_NULLFAIL", "VERIFY_WITNESS_PUBKEYTYPE"):
        std |= getattr(F, name)
    return std, F


class NetCtx(object):
    _cache = {}

    def __init__(self, code, seed):
        from pycoin.networks.registry import network_for_netcode
        self.code = code
        self.seed = seed
        self.net = network_for_netcode(code)
        self.fork = FORK_ID.get(code)
        self.segwit = code != "BCH"
        std, F = _flags()
        # property text: on fork-id coins the standard set minus the defined-hash-type rule (lives in STRICTENC here)
        self.std_flags = std & ~F.VERIFY_STRICTENC if self.fork is not None else std
        self.std_no_low_s = self.std_flags & ~F.VERIFY_LOW_S
        self.master = self.net.keys.bip32_seed(b"pyvc-c05-%d" % seed)
        self._keys = {}
        self._pts = {}

    @classmethod
    def get(cls, code, seed):
        k = (code, seed)
        if k not in cls._cache:
            cls._cache[k] = cls(code, seed)
        return cls._cache[k]

    def path(self, i):
        return "5/%d" % i

    def key(self, i):
        if i not in self._keys:
            self._keys[i] = self.master.subkey_for_path(self.path(i))
        return self._keys[i]

    def sec(self, i, compressed=True):
        if i not in self._pts:
            pp = self.key(i).public_pair()
            self._pts[i] = (int(pp[0]), int(pp[1]))
        return point_to_sec(self._pts[i], compressed)

    def expected_ht(self, ht):
        return ht | SIGHASH_FORKID if self.fork is not None else ht

    def puzzle(self, kind, m, key_ids, compressed=True):
        return Puzzle(kind, m, key_ids, [self.sec(i, compressed) for i in key_ids])

    def out_address(self, j):
        if j % 3 == 1:
            return self.net.address.for_p2s(b"\x51" + bytes([j]))  # p2sh address of some script
        return self.key(40 + j).address()


def build_tx(ctx, puzzles, rng, n_out=None):
    """unsigned tx spending one output per puzzle, built with the library's create_tx; non-default version/lock_time/sequences"""
    Tx = ctx.net.tx
    n_out = n_out or len(puzzles)
    spendables = []
    total = 0
    for j, pz in enumerate(puzzles):
        value = 100000 + rng.randrange(1, 50000)
        total += value
        spendables.append(Tx.Spendable(value, pz.script, bytes(rng.randrange(256) for _ in range(32)), rng.randrange(0, 4)))
    payables = []
    each = (total - 2000) // n_out
    for j in range(n_out):
        payables.append((ctx.out_address(j), each - j))
    version = rng.choice([1, 2])
    lock_time = rng.choice([0, 17, 500000001])
    tx = ctx.net.tx_utils.create_tx(spendables, payables, fee=0, lock_time=lock_time, version=version)
    for tx_in in tx.txs_in:
        tx_in.sequence = rng.choice([0xFFFFFFFF, 0xFFFFFFFE, 0, 7, 0x80000001])
    return tx


def do_sign(ctx, tx, mech, key_ids, scripts, ht, idx_set=None, uncompressed_wif=False):
    """sign through one of the three key-supply mechanisms"""
    net = ctx.net
    kwargs = {"hash_type": ht}
    if idx_set is not None:
        kwargs["tx_in_idx_set"] = set(idx_set)
    if mech == "lookup":
        hl = net.tx.solve.build_hash160_lookup([ctx.key(i).secret_exponent() for i in key_ids])
        tx.sign(hl, p2sh_lookup=net.tx.solve.build_p2sh_lookup(scripts), **kwargs)
    elif mech == "wif":
        wifs = [ctx.key(i).wif(is_compressed=not uncompressed_wif) for i in key_ids]
        net.tx_utils.sign_tx(tx, wifs, p2sh_lookup=net.tx.solve.build_p2sh_lookup(scripts), **kwargs)
    elif mech == "keychain":
        kc = net.keychain()
        kc.add_key_paths(ctx.master, [ctx.path(i) for i in key_ids])
        kc.add_secrets([ctx.master])
        kc.add_p2s_scripts(scripts)
        tx.sign(kc, p2sh_lookup=kc, **kwargs)
    else:
        raise ValueError(mech)


def verdicts(tx, flags=None):
    if flags is None:
        return [tx.is_solution_ok(i) for i in range(len(tx.txs_in))]
    return [tx.is_solution_ok(i, flags=flags) for i in range(len(tx.txs_in))]


def frame_diff(before, after, may_change=()):
    """names of everything that differs, except script/witness of the inputs in may_change"""
    d = []
    for f in ("version", "lock_time", "outs", "unspents"):
        if before[f] != after[f]:
            d.append(f)
    if len(before["ins"]) != len(after["ins"]):
        d.append("input count")
        return d
    for j, (a, b) in enumerate(zip(before["ins"], after["ins"])):
        if a[:3] != b[:3]:
            d.append("input %d outpoint/sequence" % j)
        if j not in may_change and a[3:] != b[3:]:
            d.append("input %d script/witness" % j)
    return d


def native_repro(ctx, tx, idx, flags, comment):
    """a reproducer that needs nothing but pycoin: the transaction and its spent outputs as hex"""
    us = ", ".join("None" if u is None else "T.TxOut(%d, bytes.fromhex(%r))" % (u.coin_value, bytes(u.script).hex()) for u in tx.unspents)
    return ("import sys; sys.path[:0]=['/repo']\nfrom pycoin.networks.registry import network_for_netcode\n"
            "T = network_for_netcode(%r).tx\ntx = T.from_hex(%r)\ntx.unspents = [%s]\n"
            "print(tx.is_solution_ok(%d), tx.is_solution_ok(%d, flags=%d))   # %s\ntx.check_solution(%d, flags=%d)"
            % (ctx.code, tx.as_hex(), us, idx, idx, flags, comment, idx, flags))


def repro_header(ctx):
    return ("import sys; sys.path[:0]=['/verif','/repo']; import contracts.c05_bounded as H, random\n"
            "ctx = H.NetCtx.get(%r, %d)\n" % (ctx.code, ctx.seed))


# ----------------------------------------------------------------------------------------------
# C05
# ----------------------------------------------------------------------------------------------

MAX_PER_KEY = 3


def _viol(t, what, inputs, repro, key):
    """at most MAX_PER_KEY entries per finding key, so that a known defect cannot crowd out a new one (Tally keeps 20)"""
    counts = t.__dict__.setdefault("key_counts", {})
    counts[key] = counts.get(key, 0) + 1
    if counts[key] <= MAX_PER_KEY:
        t.violation(what=what, inputs=inputs, repro=repro, finding_key=key)


def _result(t):
    r = t.result()
    r["violation_counts"] = dict(t.__dict__.get("key_counts", {}))
    return r


def sign_scenario(t, ctx, pzX, pzY, ht, ht2, htW, mech, seed, tag):
    """4-input tx [X (under test), Y (other kind), Z (no key supplied), W (signed beforehand)].
    returns the fully described signed tx (for the C06 corpus) or None"""
    rng = random.Random(seed)
    pzZ = ctx.puzzle("p2pkh", 1, [30])
    pzW = ctx.puzzle("p2pkh", 1, [31])
    puzzles = [pzX, pzY, pzZ, pzW]
    desc = dict(net=ctx.code, X=pzX.label(), Y=pzY.label(), ht=HT_NAMES[ht], ht2=HT_NAMES[ht2], mech=mech, seed=seed)
    rep = repro_header(ctx) + ("t = H.Tally('r'); pX = ctx.puzzle(%r, %d, %r, %r); pY = ctx.puzzle(%r, %d, %r, %r)\n"
                               "H.sign_scenario(t, ctx, pX, pY, %d, %d, %d, %r, %d, 'repro'); print(t.result()['violations'])"
                               % (pzX.kind, pzX.m, pzX.key_ids, len(pzX.secs[0]) == 33, pzY.kind, pzY.m, pzY.key_ids, len(pzY.secs[0]) == 33,
                                  ht, ht2, htW, mech, seed))
    ok = True

    def bad(what, key, extra=None):
        nonlocal ok
        ok = False
        _viol(t, what, dict(desc, detail=extra), rep, key)

    try:
        tx = build_tx(ctx, puzzles, rng)
        scripts = pzX.lookup_scripts + pzY.lookup_scripts
        unc = len(pzX.secs[0]) == 65
        # -- step 0: W signed beforehand (plain lookup), only input 3 asked
        s_a = snap(tx)
        do_sign(ctx, tx, "lookup", pzW.key_ids, [], htW, idx_set=[3])
        s0 = snap(tx)
        d = frame_diff(s_a, s0, may_change=(3,))
        if d:
            bad("sign(tx_in_idx_set={3}) changed something else", "sign-frame-broken", d)
        if not tx.is_solution_ok(3):
            bad("pre-signed companion input not valid", "signed-input-not-standard-valid")
        # -- step 0b: an EMPTY request set asks for nothing: nothing may change (all keys on offer)
        offered = pzX.key_ids + pzY.key_ids + pzW.key_ids
        do_sign(ctx, tx, mech, offered, pzX.lookup_scripts + pzY.lookup_scripts, ht, idx_set=[], uncompressed_wif=unc)
        d = frame_diff(s0, snap(tx), may_change=())
        if d:
            bad("sign(tx_in_idx_set=set()) changed the transaction although no input was asked to be signed", "sign-empty-request-set-signs-inputs", d)
        # -- step 1: only input 0 asked, keys for X, Y and W on offer
        do_sign(ctx, tx, mech, offered, scripts, ht, idx_set=[0], uncompressed_wif=unc)
        s1 = snap(tx)
        d = frame_diff(s0, s1, may_change=(0,))
        if d:
            bad("sign(tx_in_idx_set={0}) changed something other than script/witness of input 0", "sign-frame-broken", d)
        v_std = tx.is_solution_ok(0, flags=ctx.std_flags)
        v_def = tx.is_solution_ok(0)
        r_ok, r_why, recs = ref_check_input(pzX, s1, 0, ctx.fork, want_ht=ctx.expected_ht(ht))
        if not v_std or not v_def:
            bad("signed input does not validate (STANDARD=%s default=%s)" % (v_std, v_def), "signed-input-not-standard-valid",
                dict(script=s1["ins"][0][3].hex(), witness=[w.hex() for w in s1["ins"][0][4]]))
        if not r_ok:
            cls = r_why.split(":")[0]
            bad("independent reference check of the signed input fails: " + r_why,
                {"der": "signature-not-strict-der", "high-s": "signature-high-s", "hashtype": "signature-wrong-hashtype",
                 "ecdsa": "signature-does-not-verify", "layout": "unlocking-data-not-canonical"}.get(cls, "reference-check-fails"),
                dict(script=s1["ins"][0][3].hex(), witness=[w.hex() for w in s1["ins"][0][4]]))
        # the STANDARD set really enforces low S: the high-S twin of the first signature must be rejected by it
        if r_ok and recs:
            blob, r, s, sht, _z = recs[0]
            twin = der_sig(r, N - s, sht)
            tin = tx.txs_in[0]
            old_script, old_wit = tin.script, tin.witness
            if pzX.witness:
                tin.witness = tuple(twin if w == blob else w for w in old_wit)
            else:
                tin.script = old_script.replace(push(blob), push(twin))
            hi_std = tx.is_solution_ok(0, flags=ctx.std_flags)
            hi_nolow = tx.is_solution_ok(0, flags=ctx.std_no_low_s)
            tin.script, tin.witness = old_script, old_wit
            if hi_std:
                bad("high-S twin (r, n-s) accepted under STANDARD flags", "high-s-accepted-under-low-s-flag", dict(s=hex(N - s)))
            if not hi_nolow:
                bad("high-S twin (r, n-s) rejected even without LOW_S (ECDSA symmetry lost)", "high-s-twin-rejected-without-low-s")
        # -- step 2: everything asked, different hash type; X and W are already valid and must be left alone
        do_sign(ctx, tx, mech, offered, scripts, ht2, idx_set=None, uncompressed_wif=unc)
        s2 = snap(tx)
        d = frame_diff(s1, s2, may_change=(1, 2))
        if d:
            bad("sign(all) re-signed an already valid input or changed a non-script field", "sign-frame-broken", d)
        vs = verdicts(tx, ctx.std_flags)
        vd2 = tx.is_solution_ok(2)
        if vs != [True, True, False, True] or vd2:
            bad("after sign(all): verdicts STANDARD=%s default[2]=%s, expected [T,T,F,T] / False" % (vs, vd2),
                "signed-input-not-standard-valid" if not (vs[1] and vs[0] and vs[3]) else "unsigned-input-reported-valid")
        elif tx.bad_solution_count() != 1:
            bad("bad_solution_count() != 1 although exactly one input (the one without key) should fail", "bad-solution-count-inconsistent")
        r_ok, r_why, _ = ref_check_input(pzY, s2, 1, ctx.fork, want_ht=ctx.expected_ht(ht2))
        if not r_ok:
            bad("independent reference check of companion input fails: " + r_why, "reference-check-fails")
    except Exception as e:  # the harness must keep going; an exception out of sign/validate is itself a finding
        bad("exception out of create_tx/sign/validate: %s: %s" % (type(e).__name__, e), "sign-or-validate-raises-" + type(e).__name__)
        tx = None
    t.case(key=("scen", ctx.code, pzX.label(), pzY.label(), ht, ht2, mech), nontrivial=True, sample=desc)
    if not ok or tx is None:
        return None
    return tx, puzzles, [ht, ht2, None, htW]


def order_scenario(t, ctx, kind, m, n, compressed, order, ht, mech, seed, extra_passes=True):
    """multisig signed one key per pass in the given order (plus a wrong-key pass and a repeated-key pass);
    valid exactly when m distinct listed keys have signed"""
    rng = random.Random(seed)
    pzX = ctx.puzzle(kind, m, list(range(n)), compressed)
    pzW = ctx.puzzle("p2pkh", 1, [31])
    desc = dict(net=ctx.code, X=pzX.label(), order=list(order), ht=HT_NAMES[ht], mech=mech, seed=seed)
    rep = repro_header(ctx) + ("t = H.Tally('r'); H.order_scenario(t, ctx, %r, %d, %d, %r, %r, %d, %r, %d); print(t.result()['violations'])"
                               % (kind, m, n, compressed, tuple(order), ht, mech, seed))
    ok = True

    def bad(what, key, extra=None):
        nonlocal ok
        ok = False
        _viol(t, what, dict(desc, detail=extra), rep, key)

    try:
        tx = build_tx(ctx, [pzX, pzW], rng)
        do_sign(ctx, tx, "lookup", pzW.key_ids, [], SIGHASH_ALL, idx_set=[1])
        passes = [("key", k) for k in order]
        if extra_passes:
            passes.insert(rng.randrange(0, len(passes) + 1), ("wrong", 33))
            j = rng.randrange(0, len(order))
            passes.insert(passes.index(("key", order[j])) + 1, ("key", order[j]))  # same key again
        signed = set()
        for what, k in passes:
            before = snap(tx)
            was_valid = len(signed) >= m
            do_sign(ctx, tx, mech, [k], pzX.lookup_scripts, ht, idx_set=rng.choice([None, [0]]), uncompressed_wif=not compressed)
            after = snap(tx)
            if what == "key":
                signed.add(k)
            d = frame_diff(before, after, may_change=() if was_valid else (0,))
            if d:
                bad("partial signing pass changed %s" % d, "sign-frame-broken", dict(passes=passes, at=(what, k)))
            exp = len(signed) >= m
            vs, vd = tx.is_solution_ok(0, flags=ctx.std_flags), tx.is_solution_ok(0)
            if (vs, vd) != (exp, exp):
                bad("after passes signing keys %s of %d-of-%d: STANDARD=%s default=%s expected %s" % (sorted(signed), m, n, vs, vd, exp),
                    "partial-multisig-verdict-wrong" if exp else "undersigned-input-reported-valid", dict(passes=passes, at=(what, k)))
                break
        else:
            if not tx.is_solution_ok(1, flags=ctx.std_flags):
                bad("companion input invalidated by partial signing", "sign-frame-broken")
            r_ok, r_why, recs = ref_check_input(pzX, snap(tx), 0, ctx.fork, want_ht=ctx.expected_ht(ht))
            if not r_ok:
                bad("independent reference check after one-at-a-time signing fails: " + r_why, "reference-check-fails")
    except Exception as e:
        bad("exception out of create_tx/sign/validate: %s: %s" % (type(e).__name__, e), "sign-or-validate-raises-" + type(e).__name__)
    t.case(key=("order", ctx.code, pzX.label(), tuple(order), ht, mech), nontrivial=True, sample=desc)
    return ok


def wrong_keys_scenario(t, ctx, pzX, ht, mech, seed):
    """only foreign keys (and, for m>1, m-1 right keys) on offer: never valid"""
    rng = random.Random(seed)
    desc = dict(net=ctx.code, X=pzX.label(), ht=HT_NAMES[ht], mech=mech, seed=seed, wrong_keys=True)
    rep = repro_header(ctx) + ("t = H.Tally('r'); pX = ctx.puzzle(%r, %d, %r, %r); H.wrong_keys_scenario(t, ctx, pX, %d, %r, %d); print(t.result()['violations'])"
                               % (pzX.kind, pzX.m, pzX.key_ids, len(pzX.secs[0]) == 33, ht, mech, seed))
    try:
        tx = build_tx(ctx, [pzX], rng)
        offered = [34, 35] + pzX.key_ids[:pzX.m - 1]
        s0 = snap(tx)
        do_sign(ctx, tx, mech, offered, pzX.lookup_scripts, ht)
        d = frame_diff(s0, snap(tx), may_change=(0,))
        if d:
            _viol(t, "signing with wrong keys changed %s" % d, desc, rep, "sign-frame-broken")
        if tx.is_solution_ok(0) or tx.is_solution_ok(0, flags=ctx.std_flags) or tx.bad_solution_count() != 1:
            _viol(t, "input reported valid although fewer than m listed keys were supplied", desc, rep, "undersigned-input-reported-valid")
    except Exception as e:
        _viol(t, "exception out of create_tx/sign/validate: %s: %s" % (type(e).__name__, e), desc, rep, "sign-or-validate-raises-" + type(e).__name__)
    t.case(key=("wrong", ctx.code, pzX.label(), ht, mech), nontrivial=True)


def reference_spend(ctx, pz, tx, p, ht, signer_ids):
    """install an unlocking script/witness built ONLY from the reference code (own digest, own ECDSA), standard layout"""
    sn = snap(tx)
    eht = ctx.expected_ht(ht)
    z = sighash_for(pz, sn, p, eht, ctx.fork)
    sigs = []
    for kid in signer_ids:
        r, s = ecdsa_sign(ctx.key(kid).secret_exponent(), z)
        sigs.append(der_sig(r, s, eht))
    if pz.kind == "p2pk":
        items = sigs
    elif pz.kind in ("p2pkh", "p2wpkh", "p2sh_p2wpkh"):
        items = sigs + [pz.secs[0]]
    else:
        items = [b""] + sigs
    tin = tx.txs_in[p]
    if pz.witness:
        tin.script = pz.expected_script_sig_for_witness()
        tin.witness = tuple(items + ([pz.wscript] if pz.wscript is not None else []))
    else:
        tin.script = b"".join(push(i) for i in items) + (push(pz.redeem) if pz.redeem is not None else b"")
        tin.witness = ()


def big_multisig_scenario(t, ctx, kind, m, n, ht, mech, seed):
    """large m-of-n; where the script-size limits allow the spend, signing must produce a STANDARD-valid input"""
    rng = random.Random(seed)
    pz = ctx.puzzle(kind, m, list(range(n)), True)
    # limits from the property text: 520-byte redeem script under P2SH, 10,000-byte witness script under P2WSH;
    # bare scripts: consensus allows up to 20 keys (policy: 3) -- we only claim what consensus allows
    allowed = not (kind == "p2sh_ms" and len(pz.ms_script) > 520)
    desc = dict(net=ctx.code, X=pz.label(), script_len=len(pz.ms_script), ht=HT_NAMES[ht], mech=mech, allowed=allowed)
    rep = repro_header(ctx) + ("t = H.Tally('r'); H.big_multisig_scenario(t, ctx, %r, %d, %d, %d, %r, %d); print(t.result()['violations'])"
                               % (kind, m, n, ht, mech, seed))
    wrap = {"ms": "ms", "p2sh_ms": "n.contract.for_p2s(ms)", "p2wsh_ms": "n.contract.for_p2s_wit(ms)",
            "p2sh_p2wsh_ms": "n.contract.for_p2s(n.contract.for_p2s_wit(ms))"}[kind]
    native = ("import sys; sys.path[:0]=['/repo']\nfrom pycoin.networks.registry import network_for_netcode\nn = network_for_netcode(%r)\n"
              "keys = [n.keys.private(i) for i in range(1, %d)]\nms = n.contract.for_multisig(%d, [k.sec() for k in keys])\n"
              "tx = n.tx_utils.create_tx([n.tx.Spendable(10**6, %s, b'\\1'*32, 0)], [keys[0].address()], fee=0)\n"
              "tx.sign(n.tx.solve.build_hash160_lookup([k.secret_exponent() for k in keys[:%d]]), "
              "p2sh_lookup=n.tx.solve.build_p2sh_lookup([ms, n.contract.for_p2s_wit(ms)]))\n"
              "print(len(ms), tx.bad_solution_count())   # prints 1 failing input, 0 expected"
              % (ctx.code, n + 1, m, wrap, m))
    try:
        tx = build_tx(ctx, [pz], rng)
        signers = sorted(rng.sample(range(n), m))
        s0 = snap(tx)
        do_sign(ctx, tx, mech, signers, pz.lookup_scripts, ht)
        s1 = snap(tx)
        d = frame_diff(s0, s1, may_change=(0,))
        if d:
            _viol(t, "signing changed %s" % d, desc, rep, "sign-frame-broken")
        vs, vd = tx.is_solution_ok(0, flags=ctx.std_flags), tx.is_solution_ok(0)
        if allowed:
            big_wit = pz.witness and len(pz.ms_script) > 520
            n_items = m + 1 + (1 if (pz.redeem is not None and not pz.witness) or pz.wscript is not None else 0)
            if not (vs and vd):
                _viol(t, "signing a %d-of-%d %s (script %d bytes, within the limit; %d unlocking items) did not yield a valid input (STANDARD=%s default=%s)"
                      % (m, n, kind, len(pz.ms_script), n_items, vs, vd), desc, native,
                      "p2wsh-witness-script-over-520-cannot-be-signed" if big_wit else
                      ("solver-cannot-sign-11-or-more-stack-items" if n_items >= 11 else "signed-input-not-standard-valid"))
                # is it the signer or the validator?  offer the validator a spend built from the reference only
                reference_spend(ctx, pz, tx, 0, ht, signers)
                r_ok, r_why, _ = ref_check_input(pz, snap(tx), 0, ctx.fork, want_ht=ctx.expected_ht(ht))
                v2s, v2d = tx.is_solution_ok(0, flags=ctx.std_flags), tx.is_solution_ok(0)
                if r_ok and not (v2s and v2d):
                    err = ""
                    try:
                        tx.check_solution(0)
                    except Exception as e:
                        err = "%s%r" % (type(e).__name__, e.args)
                    _viol(t, "validator rejects a reference-built spend of %d-of-%d %s (witness script %d bytes <= 10000): %s"
                          % (m, n, kind, len(pz.ms_script), err), desc,
                          native_repro(ctx, tx, 0, ctx.std_flags, "False False; a valid spend (BIP141: the 520-byte limit does not apply to the witness script)"),
                          "p2wsh-witness-script-520-limit" if big_wit else "valid-spend-rejected")
            else:
                r_ok, r_why, _ = ref_check_input(pz, s1, 0, ctx.fork, want_ht=ctx.expected_ht(ht))
                if not r_ok:
                    _viol(t, "independent reference check fails: " + r_why, desc, rep, "reference-check-fails")
        else:
            if vs or vd:
                _viol(t, "P2SH redeem script of %d bytes (> 520) reported valid" % len(pz.ms_script), desc, rep, "oversize-redeem-script-accepted")
    except Exception as e:
        _viol(t, "exception out of create_tx/sign/validate: %s: %s" % (type(e).__name__, e), desc, rep, "sign-or-validate-raises-" + type(e).__name__)
    t.case(key=("big", ctx.code, pz.label(), ht, mech), nontrivial=True, sample=desc)


def low_s_rule_check(t, ctx, direct=True):
    """The LOW_S rule of the validator (part of the STANDARD set the signer is judged by) must be  s <= n/2.
    (a) direct boundary call; (b) end to end: a signature with s = n/2 + 1 made valid by key recovery on the puzzle
    <OP_CHECKSIG> (key supplied in scriptSig, so the digest does not depend on the key)."""
    from pycoin.satoshi.checksigops import check_low_der_signature
    from pycoin.coins.SolutionChecker import ScriptError
    gen = ctx.net.generator
    rep_a = ("import sys; sys.path[:0]=['/repo']\nfrom pycoin.satoshi.checksigops import check_low_der_signature\n"
             "from pycoin.ecdsa.secp256k1 import secp256k1_generator as g\nn = g.order()\n"
             "check_low_der_signature((1, n//2 + 1), g)   # must raise ScriptError(SIG_HIGH_S) as s > n/2; returns silently\n"
             "check_low_der_signature((1, (g.p()-1)//2), g)   # idem")
    for s, high in ([(1, False), (HALF_N, False), (HALF_N + 1, True), (HALF_N + 2 ** 64, True), ((P - 1) // 2, True), ((P + 1) // 2, True), (N - 1, True)]
                    if direct else []):
        try:
            check_low_der_signature((1, s), gen)
            got = False
        except ScriptError:
            got = True
        t.case(key=("lowS-direct", ctx.code, s), nontrivial=True)
        if got != high:
            _viol(t, "check_low_der_signature: s=%s is %s than n/2 but was %s" % (hex(s), "greater" if high else "not greater", "rejected" if got else "accepted"),
                  dict(s=hex(s), n_half=hex(HALF_N)), rep_a, "low-s-check-uses-field-prime")
    # (b) end to end
    try:
        Tx = ctx.net.tx
        puzzle = b"\xac"
        eht = ctx.expected_ht(SIGHASH_ALL)
        sp = Tx.Spendable(50000, puzzle, b"\x07" * 32, 1)
        tx = ctx.net.tx_utils.create_tx([sp], [(ctx.key(41).address(), 49000)], fee=0)
        sn = snap(tx)
        if ctx.fork is not None:
            z = ref_bip143_sighash(sn, 0, puzzle, 50000, eht, eht | (ctx.fork << 8))
        else:
            z = ref_legacy_sighash(sn, 0, puzzle, eht)
        for s, high in [(HALF_N, False), (HALF_N + 1, True)]:
            k = 0x1234567
            while True:
                R = ec_mul(k)
                r = R[0] % N
                # Q = r^-1 (s R - z G)
                ri = pow(r, -1, N)
                Q = ec_mul2(s * ri % N, R, (-z * ri) % N, G)
                if Q is not None and ecdsa_verify(Q, z, r, s):
                    break
                k += 1
            tx.txs_in[0].script = push(der_sig(r, s, eht)) + push(point_to_sec(Q, True))
            v_def = tx.is_solution_ok(0)
            v_std = tx.is_solution_ok(0, flags=ctx.std_flags)
            t.case(key=("lowS-e2e", ctx.code, s), nontrivial=True)
            rep_b = (repro_header(ctx) + "H.low_s_rule_check(t := H.Tally('r'), ctx); print(t.result()['violations'])")
            if not v_def:
                _viol(t, "harness self-check: recovered-key signature not valid under default flags", dict(s=hex(s)), rep_b, "harness-self-check")
            elif v_std != (not high):
                _viol(t, "signature with s = n/2%s %s under the STANDARD flags (LOW_S)" % ("+1" if high else "", "accepted" if v_std else "rejected"),
                      dict(net=ctx.code, s=hex(s)),
                      native_repro(ctx, tx, 0, ctx.std_flags, "True True; the second must be False: s = n/2+1 is a high S (BIP62 rule 5 / BIP146)"),
                      "low-s-check-uses-field-prime")
    except Exception as e:
        _viol(t, "exception in low-S end-to-end probe: %s: %s" % (type(e).__name__, e), ctx.code, None, "sign-or-validate-raises-" + type(e).__name__)


def puzzle_configs(ctx, max_n):
    """all standard puzzle configurations up to max_n keys: (kind, m, n, compressed)"""
    out = []
    for kind in KINDS:
        if kind in WITNESS_KINDS and not ctx.segwit:
            continue
        comps = [True] if kind in WITNESS_KINDS else [True, False]
        if kind in MS_KINDS:
            for n in range(1, max_n + 1):
                for m in range(1, n + 1):
                    for c in comps:
                        out.append((kind, m, n, c))
        else:
            for c in comps:
                out.append((kind, 1, 1, c))
    return out


def companion_for(ctx, i, mech):
    """a second puzzle of a different kind for the mixed transaction (keys 4..6)"""
    ks = [k for k in KINDS if ctx.segwit or k not in WITNESS_KINDS]
    kind = ks[i % len(ks)]
    if kind in MS_KINDS:
        m, n = [(1, 1), (1, 2), (2, 2), (2, 3), (1, 3), (3, 3)][(i // len(ks)) % 6]
        return ctx.puzzle(kind, m, list(range(4, 4 + n)), True)
    return ctx.puzzle(kind, 1, [4], kind in WITNESS_KINDS or mech == "keychain" or i % 2 == 0)


@bounded("C05.sign_standard", props=["C05"],
         bound="puzzle config = kind {P2PK,P2PKH,bare/P2SH/P2WSH/P2SH-P2WSH m-of-n,P2WPKH,P2SH-P2WPKH} x m-of-n x compressed/uncompressed (uncompressed only "
               "outside witness programs; witness kinds not on BCH; keychain only with compressed keys). "
               "quick: every (config with n<=3, hash type) pair once (uncompressed multisig: every other hash type) and every (kind, network, mechanism) "
               "triple once, the remaining dimensions rotating; every signing order of every m-of-n<=3 x 4 wrappers on one network each; wrong/too-few keys on "
               "half the (network, config n<=2); 13 large multisigs (n in 9..20). "
               "thorough: full product config(n<=3) x 6 hash types x {BTC,XTN,LTC,BCH,BTG} x {lookup,WIF,keychain}; config(n=4) x 6 x 5 with mechanism rotating; "
               "all orders for n<=3 on 5 networks x 2 hash types and for n=4 on one network each; n in {15,16,20} x m in {1,8,9,10,n} and n-of-n for n in 8..11 "
               "x 4 wrappers x 5 networks")
def c05_sign_standard(opts):
    seed = opts.get("seed", 0)
    thorough = opts.get("tier") == "thorough"
    rng = random.Random(seed)
    t = Tally(rule="case = (scenario type, network, puzzle kind + m-of-n + key form, companion puzzle, hash type(s), key-supply mechanism[, signing order]); "
                   "every case signs a freshly built multi-input transaction and checks verdicts (STANDARD + default flags), an independent "
                   "reference validator (strict DER, s<=n/2, hash-type byte, own sighash + own ECDSA), and the frame (nothing but the asked, not yet "
                   "valid inputs' script/witness changes)")
    ctxs = {c: NetCtx.get(c, seed) for c in NETCODES}
    ctr = 0
    # ---- (a) mixed 4-input transactions
    if thorough:
        for code in NETCODES:
            ctx = ctxs[code]
            for ci, (kind, m, n, c) in enumerate(puzzle_configs(ctx, 4)):
                pzX = ctx.puzzle(kind, m, list(range(n)), c)
                for hi, ht in enumerate(HASH_TYPES):
                    for mech in MECHS:
                        if mech == "keychain" and not c:
                            continue  # a keychain of BIP32 paths indexes compressed keys only: infeasible, not claimed
                        if n == 4 and mech != MECHS[(ci + hi) % (3 if c else 2)]:
                            continue  # n = 4: every (config, hash type, network), mechanism rotating
                        ctr += 1
                        ht2 = HASH_TYPES[(HASH_TYPES.index(ht) + 1 + ctr % 5) % 6]
                        htW = HASH_TYPES[(HASH_TYPES.index(ht2) + 1 + ctr % 4) % 6]
                        sign_scenario(t, ctx, pzX, companion_for(ctx, ctr, mech), ht, ht2, htW, mech, seed * 1000003 + ctr, "full")
    else:
        # every (config, hash type) pair once, network and mechanism rotating
        ctr2 = 0
        cfgs = puzzle_configs(ctxs["BTC"], 3)
        for ci, (kind, m, n, c) in enumerate(cfgs):
            for hi, ht in enumerate(HASH_TYPES):
                ctr += 1
                if kind in MS_KINDS and not c and (hi + ci + seed) % 2:
                    continue  # quick tier: uncompressed multisig configurations get every other hash type
                codes = [x for x in NETCODES if ctxs[x].segwit or kind not in WITNESS_KINDS]
                ctx = ctxs[codes[(ci + hi + seed) % len(codes)]]
                mech = MECHS[(ci + 2 * hi + seed) % 3]
                if mech == "keychain" and not c:
                    mech = MECHS[(ci + hi) % 2]
                pzX = ctx.puzzle(kind, m, list(range(n)), c)
                ht2 = HASH_TYPES[(hi + 1 + ctr % 5) % 6]
                htW = HASH_TYPES[(HASH_TYPES.index(ht2) + 1 + ctr % 4) % 6]
                sign_scenario(t, ctx, pzX, companion_for(ctx, ctr, mech), ht, ht2, htW, mech, seed * 1000003 + ctr, "pair")
        # every (kind, network, mechanism) triple, hash type rotating (2-of-3 for the multisig kinds)
        for code in NETCODES:
            ctx = ctxs[code]
            for kind in KINDS:
                if kind in WITNESS_KINDS and not ctx.segwit:
                    continue
                for mech in MECHS:
                    ctr += 1
                    ctr2 += 1
                    ht = HASH_TYPES[ctr2 % 6]
                    ht2 = HASH_TYPES[(ctr2 + 1 + ctr2 // 6 % 5) % 6]
                    htW = HASH_TYPES[(ctr2 + 3) % 6]
                    c = True if (kind in WITNESS_KINDS or mech == "keychain") else bool(ctr2 % 2)
                    pzX = ctx.puzzle(kind, 2, [0, 1, 2], c) if kind in MS_KINDS else ctx.puzzle(kind, 1, [0], c)
                    sign_scenario(t, ctx, pzX, companion_for(ctx, ctr, mech), ht, ht2, htW, mech, seed * 1000003 + ctr, "triple")
    # ---- (b) one key at a time, every order
    max_n = 4 if thorough else 3
    oc = 0
    for kind in MS_KINDS:
        for n in range(1, max_n + 1):
            for m in range(1, n + 1):
                for order in itertools.permutations(range(n)):
                    nets = NETCODES if (thorough and n <= 3) else [NETCODES[(oc + seed) % 5]]
                    for code in nets:
                        ctx = ctxs[code]
                        if kind in WITNESS_KINDS and not ctx.segwit:
                            ctx = ctxs["BTG"]
                        oc += 1
                        comp = True if (kind in WITNESS_KINDS or MECHS[oc % 3] == "keychain") else (oc % 2 == 0)
                        hts = [HASH_TYPES[oc % 6]]
                        if thorough and n <= 3:
                            hts.append(HASH_TYPES[(oc + 3) % 6])
                        for ht in hts:
                            order_scenario(t, ctx, kind, m, n, comp, order, ht, MECHS[oc % 3], seed * 7919 + oc)
    # ---- (c) wrong / too few keys for every kind
    wc = 0
    for code in NETCODES:
        ctx = ctxs[code]
        for (kind, m, n, c) in puzzle_configs(ctx, 3 if thorough else 2):
            wc += 1
            if not thorough and (wc + seed) % 2:
                continue
            mech = MECHS[wc % 3] if c else MECHS[wc % 2]
            wrong_keys_scenario(t, ctx, ctx.puzzle(kind, m, list(range(n)), c), HASH_TYPES[wc % 6], mech, seed * 104729 + wc)
    # ---- (d) large n
    bc = 0
    if thorough:
        big = [(k, m, n) for k in MS_KINDS for n in (15, 16, 20) for m in (1, 8, 9, 10, n)] + [(k, n, n) for k in MS_KINDS for n in (8, 9, 10, 11)]
    else:
        big = [("ms", 1, 20), ("ms", 9, 16), ("ms", 10, 10), ("ms", 20, 20), ("p2sh_ms", 1, 15), ("p2sh_ms", 8, 15), ("p2sh_ms", 9, 15), ("p2sh_ms", 1, 16),
               ("p2wsh_ms", 8, 15), ("p2wsh_ms", 9, 9), ("p2wsh_ms", 1, 16), ("p2sh_p2wsh_ms", 1, 15), ("p2sh_p2wsh_ms", 2, 20)]
    for (kind, m, n) in big:
        nets = NETCODES if thorough else [NETCODES[(bc + seed) % 5]]
        for code in nets:
            ctx = ctxs[code]
            if kind in WITNESS_KINDS and not ctx.segwit:
                if thorough:
                    continue
                ctx = ctxs["BTC"]
            bc += 1
            big_multisig_scenario(t, ctx, kind, m, n, HASH_TYPES[bc % 6], MECHS[bc % 3], seed * 15485863 + bc)
    # ---- (e) the LOW_S rule the signer is judged by
    for j, code in enumerate(NETCODES if thorough else ["BTC", "BCH"]):
        low_s_rule_check(t, ctxs[code], direct=(j == 0))
    t.exhaustive = False
    return _result(t)


# ----------------------------------------------------------------------------------------------
# C06
# ----------------------------------------------------------------------------------------------

def commit_view(sn, p, ht, bip143):
    """What a signature with hash-type byte `ht` on the input at position p commits to (property text / BIP143 / Satoshi rules).
    Two transactions with equal views must give the same verdict for that signature; different views must make it fail."""
    base = ht & 0x1f
    acp = bool(ht & SIGHASH_ACP)
    ins, outs = sn["ins"], sn["outs"]
    h, idx, seq, _s, _w = ins[p]
    u = sn["unspents"][p] if p < len(sn["unspents"]) else None
    v = [("version", sn["version"]), ("lock_time", sn["lock_time"]), ("own outpoint", h, idx), ("own sequence", seq),
         ("spent script", None if u is None else u[1])]
    if bip143:
        v.append(("spent amount", None if u is None else u[0]))
    if not acp:
        v.append(("all outpoints, own position", tuple((i[0], i[1]) for i in ins), p))
        if base not in (SIGHASH_NONE, SIGHASH_SINGLE):
            v.append(("all sequences", tuple(i[2] for i in ins)))
    if base == SIGHASH_SINGLE:
        o = outs[p] if p < len(outs) else None
        v.append(("matching output", o) if bip143 else ("matching output and its index", p, o))
    elif base != SIGHASH_NONE:
        v.append(("all outputs", tuple(outs)))
    return v


class Signed(object):
    """a fully signed corpus transaction plus the harness-side knowledge about it"""

    def __init__(self, ctx, tx, puzzles, label):
        self.ctx, self.tx, self.puzzles, self.label = ctx, tx, puzzles, label
        self.orig_inputs = list(tx.txs_in)
        self.orig = snap(tx)
        self.recs = []   # per input: [(blob, r, s, ht, digest)]
        self.ok = True
        self.why = None
        self.ref_ok = True   # signatures verify against the reference digests (else only the commitment table is used as oracle)
        for j, pz in enumerate(puzzles):
            r_ok, why, recs = ref_check_input(pz, self.orig, j, ctx.fork)
            self.recs.append(recs)
            if not r_ok and why.startswith("ecdsa"):
                self.ref_ok, self.why = False, "input %d: %s" % (j, why)
            elif not r_ok:
                self.ok, self.why = False, "input %d: %s" % (j, why)
        if self.ok:
            vd, vs = verdicts(tx), verdicts(tx, ctx.std_flags)
            if not (all(vd) and all(vs)):
                self.ok, self.why = False, "verdicts default=%s STANDARD=%s" % (vd, vs)

    def bip143(self, j):
        return self.ctx.fork is not None or self.puzzles[j].witness

    def positions(self):
        """current position -> original input index (None for foreign inputs)"""
        ids = {id(o): j for j, o in enumerate(self.orig_inputs)}
        return [ids.get(id(i)) for i in self.tx.txs_in]

    def expected(self, cur):
        """oracle 1 (commitment table) and oracle 2 (reference digests) for every current position"""
        e1, e2 = [], []
        for p, o in enumerate(self.positions()):
            if o is None:
                e1.append(False)
                e2.append(False)
                continue
            u = cur["unspents"][p] if p < len(cur["unspents"]) else None
            same_unlock = cur["ins"][p][3:] == self.orig["ins"][o][3:]
            pz = self.puzzles[o]
            if u is None or not same_unlock:
                e1.append(False)
                e2.append(False)
                continue
            b = self.bip143(o)
            e1.append(all(commit_view(cur, p, ht, b) == commit_view(self.orig, o, ht, b) for (_b, _r, _s, ht, _z) in self.recs[o]))
            e2.append(u[1] == pz.script and all(sighash_for(pz, cur, p, ht, self.ctx.fork) == z for (_b, _r, _s, ht, z) in self.recs[o]))
        return e1, e2


def make_corpus_tx(ctx, specs, mech, seed):
    """specs: [(kind, m, n, compressed, [hash types])] -- one hash type: all m keys in one pass; several: one key per pass, each its own type"""
    rng = random.Random(seed)
    puzzles = []
    for j, (kind, m, n, comp, hts) in enumerate(specs):
        puzzles.append(ctx.puzzle(kind, m, list(range(4 * j, 4 * j + n)), comp))
    tx = build_tx(ctx, puzzles, rng)
    for j, (kind, m, n, comp, hts) in enumerate(specs):
        pz = puzzles[j]
        if len(hts) == 1:
            do_sign(ctx, tx, mech, pz.key_ids[:m], pz.lookup_scripts, hts[0], idx_set=[j], uncompressed_wif=not comp)
        else:
            for k, ht in zip(pz.key_ids[:m], hts):
                do_sign(ctx, tx, mech, [k], pz.lookup_scripts, ht, idx_set=[j], uncompressed_wif=not comp)
    label = "%s[%s]" % (ctx.code, ", ".join("%s/%s" % (p.label(), "+".join(HT_NAMES[h] for h in s[4])) for p, s in zip(puzzles, specs)))
    return Signed(ctx, tx, puzzles, label)


def flip(b, pos, bit=0):
    pos %= len(b)
    return b[:pos] + bytes([b[pos] ^ (1 << bit)]) + b[pos + 1:]


def mutations(sg, rng, all_variants):
    """-> [(name, apply)]; apply(tx) mutates THE SAME object in place and returns an undo closure"""
    ctx = sg.ctx
    Tx = ctx.net.tx
    tx = sg.tx
    n_in, n_out = len(tx.txs_in), len(tx.txs_out)
    muts = []

    def attr(obj_f, name, newval_f, label):
        def apply(tx):
            obj = obj_f(tx)
            if obj is None:   # (in a cumulative sequence the spent output may already have been made unknown)
                return lambda: None
            old = getattr(obj, name)
            setattr(obj, name, newval_f(old))
            return lambda: setattr(obj, name, old)
        muts.append((label, apply))

    def variants(vs):
        return vs if all_variants else [rng.choice(vs)]

    for k, f in variants([("^1", lambda v: v ^ 1), ("^2^31", lambda v: v ^ 0x80000000), ("+1", lambda v: (v + 1) & 0xFFFFFFFF)]):
        attr(lambda tx: tx, "version", f, "version" + k)
    for k, f in variants([("^1", lambda v: v ^ 1), ("^2^31", lambda v: v ^ 0x80000000), ("=0|1", lambda v: 0 if v else 1)]):
        attr(lambda tx: tx, "lock_time", f, "lock_time" + k)
    for j in range(n_in):
        for k, f in variants([("flip first bit", lambda v: flip(v, 0, 0)), ("flip last bit", lambda v: flip(v, 31, 7)), ("flip middle", lambda v: flip(v, 13, 3))]):
            attr(lambda tx, j=j: tx.txs_in[j], "previous_hash", f, "input %d outpoint hash %s" % (j, k))
        for k, f in variants([("^1", lambda v: v ^ 1), ("+1", lambda v: v + 1), ("^2^31", lambda v: v ^ 0x80000000)]):
            attr(lambda tx, j=j: tx.txs_in[j], "previous_index", f, "input %d outpoint index %s" % (j, k))
        for k, f in variants([("^1", lambda v: v ^ 1), ("=0|1", lambda v: 0 if v else 1), ("^2^31", lambda v: v ^ 0x80000000)]):
            attr(lambda tx, j=j: tx.txs_in[j], "sequence", f, "input %d sequence %s" % (j, k))
        for k, f in variants([("+1", lambda v: v + 1), ("-1", lambda v: v - 1), ("^2^40", lambda v: v ^ (1 << 40))]):
            attr(lambda tx, j=j: tx.unspents[j], "coin_value", f, "spent output %d amount %s" % (j, k))
        # appending an opcode to a P2SH / witness-program template turns it into a different (hash-preimage) puzzle that needs no
        # signature at all, so "append" is only a commitment test where the spent script itself is the script code
        sv = [("flip bit in last byte", lambda v: flip(v, len(v) - 1, 0)), ("flip bit in the middle", lambda v: flip(v, len(v) // 2, 2))]
        if sg.puzzles[j].kind in ("p2pk", "p2pkh", "ms"):
            sv.append(("append OP_NOP", lambda v: v + b"\x61"))
        for k, f in variants(sv):
            attr(lambda tx, j=j: tx.unspents[j], "script", f, "spent output %d script %s" % (j, k))
    for k_ in range(n_out):
        for k, f in variants([("+1", lambda v: v + 1), ("-1", lambda v: v - 1), ("^2^33", lambda v: v ^ (1 << 33))]):
            attr(lambda tx, k_=k_: tx.txs_out[k_], "coin_value", f, "output %d value %s" % (k_, k))
        for k, f in variants([("flip bit", lambda v: flip(v, 5, 1)), ("append byte", lambda v: v + b"\x00"), ("truncate", lambda v: v[:-1])]):
            attr(lambda tx, k_=k_: tx.txs_out[k_], "script", f, "output %d script %s" % (k_, k))

    def list_edit(label, edit):
        def apply(tx):
            saved = (list(tx.txs_in), list(tx.txs_out), list(tx.unspents))
            edit(tx)

            def undo():
                tx.txs_in[:], tx.txs_out[:] = saved[0], saved[1]
                tx.unspents = saved[2]
            return undo
        muts.append((label, apply))

    foreign_script = ctx.puzzle("p2pkh", 1, [45]).script

    def ins_input(at):
        def edit(tx):
            pos = at if at >= 0 else len(tx.txs_in)
            tx.txs_in.insert(pos, Tx.TxIn(b"\x5a" * 32, 3, b"", 0xFFFFFFFD))
            us = list(tx.unspents)
            us.insert(pos, Tx.TxOut(77777, foreign_script))
            tx.unspents = us
        return edit

    def del_input(j):
        def edit(tx):
            del tx.txs_in[j]
            us = list(tx.unspents)
            del us[j]
            tx.unspents = us
        return edit

    def swap_inputs(a, b, with_outputs=False):
        def edit(tx):
            tx.txs_in[a], tx.txs_in[b] = tx.txs_in[b], tx.txs_in[a]
            us = list(tx.unspents)
            us[a], us[b] = us[b], us[a]
            tx.unspents = us
            if with_outputs:
                tx.txs_out[a], tx.txs_out[b] = tx.txs_out[b], tx.txs_out[a]
        return edit

    def ins_output(at):
        def edit(tx):
            pos = at if at >= 0 else len(tx.txs_out)
            tx.txs_out.insert(pos, Tx.TxOut(4321, foreign_script))
        return edit

    def del_output(k_):
        def edit(tx):
            del tx.txs_out[k_]
        return edit

    def swap_outputs(a, b):
        def edit(tx):
            tx.txs_out[a], tx.txs_out[b] = tx.txs_out[b], tx.txs_out[a]
        return edit

    list_edit("insert input at front", ins_input(0))
    list_edit("insert input at end", ins_input(-1))
    if n_in > 2:
        list_edit("insert input in the middle", ins_input(1))
    for j in range(n_in):
        if n_in > 1:
            list_edit("remove input %d" % j, del_input(j))
    pairs = list(itertools.combinations(range(n_in), 2))
    out_pairs = list(itertools.combinations(range(n_out), 2))
    if not all_variants and len(pairs) > 2:
        pairs = rng.sample(pairs, 2)
        out_pairs = rng.sample(out_pairs, 2)
    for a, b in pairs:
        list_edit("swap inputs %d,%d (with their spent outputs)" % (a, b), swap_inputs(a, b))
        if max(a, b) < n_out:
            list_edit("swap inputs %d,%d and outputs %d,%d" % (a, b, a, b), swap_inputs(a, b, True))
    list_edit("insert output at front", ins_output(0))
    list_edit("insert output at end", ins_output(-1))
    for k_ in range(n_out):
        if n_out > 1:
            list_edit("remove output %d" % k_, del_output(k_))
    for a, b in out_pairs:
        list_edit("swap outputs %d,%d" % (a, b), swap_outputs(a, b))
    for a, b in pairs:
        def apply(tx, a=a, b=b):
            ia, ib = tx.txs_in[a], tx.txs_in[b]
            sa, sb = (ia.script, ia.witness), (ib.script, ib.witness)
            (ia.script, ia.witness), (ib.script, ib.witness) = sb, sa

            def undo():
                (ia.script, ia.witness), (ib.script, ib.witness) = sa, sb
            return undo
        muts.append(("swap unlocking data of inputs %d,%d" % (a, b), apply))
    for j in range(n_in):
        def apply(tx, j=j):
            old = tx.unspents
            us = list(old)
            us[j] = None
            tx.unspents = us
            return lambda: setattr(tx, "unspents", old)
        muts.append(("spent output %d unknown (None)" % j, apply))
    for cut in sorted(set([0, n_in - 1])):
        def apply(tx, cut=cut):
            old = tx.unspents
            tx.unspents = list(old)[:cut]
            return lambda: setattr(tx, "unspents", old)
        muts.append(("spent outputs list truncated to %d" % cut, apply))
    return muts


def fresh_copy(ctx, tx):
    Tx = ctx.net.tx
    c = Tx.from_bin(tx.as_bin())
    c.unspents = [None if u is None else Tx.TxOut(u.coin_value, bytes(u.script)) for u in tx.unspents]
    return c


def safe_verdicts(tx, flags=None):
    """per-input verdicts; an exception other than the library's own ScriptError (caught inside is_solution_ok) is recorded"""
    out = []
    for i in range(len(tx.txs_in)):
        try:
            out.append(tx.is_solution_ok(i) if flags is None else tx.is_solution_ok(i, flags=flags))
        except Exception as e:
            out.append("raises %s: %s" % (type(e).__name__, e))
    return out


def valid_without_signatures(tx, p):
    """consensus verdict (independent interpreter, P2SH+WITNESS rules) of input p when *every* signature / lock-time check
    fails.  A tampered puzzle that still succeeds then (e.g. `<key> OP_CHECKSIG OP_16`: the failed check is buried under a
    true constant) is valid whatever the signatures commit to -- consensus, not a tamper-evidence failure."""
    try:
        import spec.consensus_script as cs
        u = tx.unspents[p]
        if u is None:
            return False
        ok, _err = cs.verify_script(bytes(tx.txs_in[p].script), bytes(u.script), [bytes(w) for w in tx.txs_in[p].witness], "P2SH,WITNESS", cs.BaseChecker())
        return bool(ok)
    except Exception:
        return False


def tamper_one(t, sg, names_applies, step, check_std, check_repeat, seq_id, check_fresh=True):
    """apply the given mutation(s) cumulatively on the same object, validate, compare with the oracle; returns undo list"""
    ctx, tx = sg.ctx, sg.tx
    undos = []
    names = []
    for name, apply in names_applies:
        undos.append(apply(tx))
        names.append(name)
    cur = snap(tx)
    e1, e2 = sg.expected(cur)
    got = safe_verdicts(tx)
    desc = dict(tx=sg.label, mutation=names, step=step)
    rep = ("import sys; sys.path[:0]=['/verif','/repo']; import contracts.c05_bounded as H\n"
           "print(H.replay_tamper(%r, %r, %r))" % (sg.replay, names, seq_id))
    pos = sg.positions()
    sigfree = set()
    nontrivial = any(o is not None for o in pos)
    t.case(key=("tamper", sg.label, tuple(names)), nontrivial=nontrivial, sample=dict(desc, expected=e1, got=got) if step % 97 == 5 else None)
    if e1 != e2 and sg.ref_ok:
        _viol(t, "harness self-check: commitment table and reference digests disagree (%s vs %s)" % (e1, e2), desc, rep, "harness-self-check")
        return undos
    for p, (g, e) in enumerate(zip(got, e1)):
        if g is e:
            continue
        o = pos[p]
        if isinstance(g, str):
            _viol(t, "validation of a tampered transaction raises instead of giving a verdict: %s" % g, dict(desc, position=p), rep,
                  "validate-raises-" + g.split()[1].rstrip(":"))
        elif g and not e:
            if valid_without_signatures(tx, p):
                sigfree.add(p)
                continue      # the mutated puzzle no longer depends on a signature: "valid" is the consensus verdict
            missing = p >= len(cur["unspents"]) or cur["unspents"][p] is None
            _viol(t, "input at position %d (original %s) still reported valid after a change to a field its hash type commits%s"
                  % (p, o, " -- spent output unknown" if missing else ""), dict(desc, position=p, expected=e1, got=got), rep,
                  "valid-with-unknown-spent-output" if missing else "committed-field-change-not-detected")
        else:
            _viol(t, "input at position %d (original %s) reported invalid after a change confined to fields outside its commitment" % (p, o),
                  dict(desc, position=p, expected=e1, got=got), rep, "uncommitted-field-change-invalidates")
    try:
        bc = tx.bad_solution_count() if (check_std or check_repeat) else None
        if bc is not None and not any(isinstance(g, str) for g in got) and bc != sum(1 for g in got if not g):
            _viol(t, "bad_solution_count()=%d but %d inputs fail is_solution_ok" % (bc, sum(1 for g in got if not g)), desc, rep, "bad-solution-count-inconsistent")
    except Exception as e:
        _viol(t, "bad_solution_count raises %s: %s" % (type(e).__name__, e), desc, rep, "validate-raises-" + type(e).__name__)
    # a fresh object with the same content must give the same verdicts
    gf = got
    if check_fresh:
        try:
            fc = fresh_copy(ctx, tx)
            gf = safe_verdicts(fc)
        except Exception as e:
            gf = "fresh copy raises %s: %s" % (type(e).__name__, e)
    if gf != got:
        _viol(t, "same object says %s, a fresh copy (from_bin round trip, same spent outputs) says %s" % (got, gf), desc, rep, "stale-state-in-validation")
    if check_repeat:
        g2 = safe_verdicts(tx)
        if g2 != got:
            _viol(t, "second validation of the same object says %s, the first said %s" % (g2, got), desc, rep, "validation-not-repeatable")
    if check_std:
        gs = safe_verdicts(tx, ctx.std_flags)
        # (positions whose tampered puzzle is signature-free are judged by policy flags such as NULLFAIL / CLEANSTACK alone)
        if [v for i_, v in enumerate(gs) if i_ not in sigfree] != [v for i_, v in enumerate(got) if i_ not in sigfree]:
            _viol(t, "STANDARD-flag verdicts %s differ from default-flag verdicts %s on a tampered transaction (no encoding was touched)" % (gs, got),
                  desc, rep, "standard-and-default-verdicts-diverge")
    return undos


def corpus_specs(ctx, rng, thorough):
    """(kind, hash type) pairs grouped three to a transaction, multisig sizes rotating; plus mixed-hash-type multisig inputs"""
    kinds = [k for k in KINDS if ctx.segwit or k not in WITNESS_KINDS]
    pairs = [(k, ht) for k in kinds for ht in HASH_TYPES]
    rng.shuffle(pairs)
    mn = [(1, 1), (1, 2), (2, 2), (2, 3), (3, 3), (1, 3)] if thorough else [(1, 1), (1, 2), (2, 2), (2, 3), (1, 1), (2, 2)]
    specs = []
    for i, (k, ht) in enumerate(pairs):
        comp = True if k in WITNESS_KINDS else (i % 3 != 0)
        m, n = mn[i % 6] if k in MS_KINDS else (1, 1)
        specs.append((k, m, n, comp, [ht]))
    txs = [specs[i:i + 3] for i in range(0, len(specs), 3)]
    # multisig inputs whose signatures carry different hash types (exercises the per-call sighash cache)
    ms_kinds = [k for k in MS_KINDS if ctx.segwit or k not in WITNESS_KINDS]
    mixed = []
    for i, k in enumerate(ms_kinds):
        a = HASH_TYPES[(i + rng.randrange(6)) % 6]
        b = HASH_TYPES[(HASH_TYPES.index(a) + 1 + rng.randrange(5)) % 6]
        c = HASH_TYPES[rng.randrange(6)]
        mixed.append([(k, 2, 2 + i % 2, True, [a, b]), ("p2pkh", 1, 1, True, [c]), (k, 3, 3, True, [b, c, a])])
    return txs, mixed


def replay_tamper(replay, names, seq_id):
    """reproducer: rebuild the corpus transaction and apply the named mutations"""
    code, seed, specs, mech, cseed = replay
    ctx = NetCtx.get(code, seed)
    sg = make_corpus_tx(ctx, specs, mech, cseed)
    sg.replay = replay
    muts = dict(mutations(sg, random.Random(0), True))
    for nme in names:
        muts[nme](sg.tx)
    cur = snap(sg.tx)
    return dict(label=sg.label, expected=sg.expected(cur), got=safe_verdicts(sg.tx), got_std=safe_verdicts(sg.tx, ctx.std_flags),
                fresh=safe_verdicts(fresh_copy(ctx, sg.tx)), tx=sg.tx.as_hex())


@bounded("C06.tamper", props=["C06"],
         bound="signed 3-input/3-output transactions covering every (puzzle kind, hash type) on non-fork (BTC/XTN/LTC), BCH and BTG digests "
               "(quick: about half of them) + multisig inputs with mixed hash types; every single-field / list mutation once per transaction "
               "(thorough: 3 variants per field and random cumulative sequences), re-validating the same object, a fresh copy, and under STANDARD flags")
def c06_tamper(opts):
    seed = opts.get("seed", 0)
    thorough = opts.get("tier") == "thorough"
    rng = random.Random(seed ^ 0xC06)
    t = Tally(rule="case = (signed transaction, mutation or mutation sequence); the oracle is the commitment table of the hash type of every signature "
                   "on the input (cross-checked against independent sighash references); verdicts are read from is_solution_ok on the same "
                   "object, on a from_bin round-trip copy with the same spent outputs, repeated, and under the STANDARD flags")
    plan = []
    nonfork = ["BTC", "XTN", "LTC"]
    for gi, group in enumerate([nonfork, ["BCH"], ["BTG"]]):
        ctx0 = NetCtx.get(group[0], seed)
        txs, mixed = corpus_specs(ctx0, rng, thorough)
        if not thorough:
            keep = len(txs) if gi == 0 else (len(txs) + 1) // 2
            txs = txs[:keep]
            mixed = mixed[:2] if gi == 0 else mixed[:1]
        for i, specs in enumerate(txs + mixed):
            code = group[i % len(group)]
            mech = MECHS[(i + gi) % 3]
            if mech == "keychain" and any(not s[3] for s in specs):
                mech = MECHS[i % 2]
            plan.append((code, specs, mech, seed * 65537 + gi * 1000 + i))
    step = 0
    for code, specs, mech, cseed in plan:
        ctx = NetCtx.get(code, seed)
        try:
            sg = make_corpus_tx(ctx, specs, mech, cseed)
        except Exception as e:
            _viol(t, "corpus transaction could not be built/signed: %s: %s" % (type(e).__name__, e), repr(specs), None, "corpus-not-signable")
            continue
        sg.replay = (code, seed, specs, mech, cseed)
        if not sg.ok:
            # a signing problem is C05's business; it only shrinks this corpus
            _viol(t, "corpus transaction not valid after signing (see C05): %s" % sg.why, sg.label, None, "corpus-not-signable")
            continue
        if not sg.ref_ok:
            # signer and validator agree with each other but not with the BIP143 / Satoshi digests: keep tampering (table oracle only)
            _viol(t, "library accepts its own signatures but they do not sign the reference digest: %s" % sg.why, sg.label, None,
                  "signature-does-not-verify")
        muts = mutations(sg, rng, thorough)
        for mi, (name, apply) in enumerate(muts):
            step += 1
            undos = tamper_one(t, sg, [(name, apply)], step, check_std=(step % 4 == 3) or thorough, check_repeat=(step % 4 == 1) or thorough, seq_id=mi,
                               check_fresh=(step % 2 == 0) or thorough)
            for u in reversed(undos):
                u()
            if mi % 8 == 7 or mi == len(muts) - 1:
                # everything undone: the same object must be fully valid again and identical to the original
                back = snap(sg.tx)
                got = safe_verdicts(sg.tx)
                t.case(key=("restored", sg.label, mi), nontrivial=True)
                if back != sg.orig:
                    _viol(t, "harness self-check: undo did not restore the transaction", dict(tx=sg.label, after=name), None, "harness-self-check")
                elif not all(g is True for g in got):
                    _viol(t, "after undoing every mutation the same object validates as %s (a fresh copy: %s)" % (got, safe_verdicts(fresh_copy(ctx, sg.tx))),
                          dict(tx=sg.label, after=name), None, "stale-state-in-validation")
        if thorough:
            # cumulative sequences of 2..4 mutations on the same object
            simple = [m for m in muts if not m[0].startswith(("insert", "remove", "swap inputs", "swap outputs", "spent outputs list"))]
            for q in range(12):
                k = rng.randrange(2, 5)
                seq = rng.sample(simple, k)
                if q % 3 == 0:
                    seq.append(rng.choice([m for m in muts if m[0].startswith(("insert", "remove", "swap inputs", "swap outputs"))]))
                step += 1
                undos = tamper_one(t, sg, seq, step, True, True, seq_id=-1)
                for u in reversed(undos):
                    u()
    t.exhaustive = False
    return _result(t)


# ----------------------------------------------------------------------------------------------------------------
# one Keychain object used across signing passes (keys arrive between the passes)
# ----------------------------------------------------------------------------------------------------------------
@bounded("C05.keychain_histories", props=["C05"],
         bound="seeded histories: m-of-n P2SH multisig (n <= 3) plus a P2PKH input, hierarchical co-signers registered by public key "
               "paths in ONE Keychain, private keys added one at a time in a seeded order with a signing pass after each; quick 24 / "
               "thorough 240 histories")
def c05_keychain_histories(opts):
    from pycoin.symbols.btc import network
    from pycoin.satoshi import flags as F
    rng = random.Random(opts["seed"] * 1000003 + 599)
    Tx = network.tx
    std = (F.VERIFY_P2SH | F.VERIFY_STRICTENC | F.VERIFY_DERSIG | F.VERIFY_LOW_S | F.VERIFY_NULLDUMMY | F.VERIFY_SIGPUSHONLY
           | F.VERIFY_MINIMALDATA | F.VERIFY_DISCOURAGE_UPGRADABLE_NOPS | F.VERIFY_CLEANSTACK | F.VERIFY_CHECKLOCKTIMEVERIFY
           | F.VERIFY_CHECKSEQUENCEVERIFY | F.VERIFY_WITNESS | F.VERIFY_DISCOURAGE_UPGRADABLE_WITNESS_PROGRAM | F.VERIFY_MINIMALIF
           | F.VERIFY_NULLFAIL | F.VERIFY_WITNESS_PUBKEYTYPE)
    t = Tally(rule="one case = one history.  After each pass the P2PKH input is valid iff its owner's private key has been added, and the "
                   "multisig input iff at least m of its listed co-signers' private keys have been added (STANDARD flags); nothing but "
                   "unlocking data changes; a fresh Keychain given the same keys agrees")
    for h in range(24 if opts["tier"] == "quick" else 240):
        n = rng.choice([2, 2, 3])
        m = rng.randrange(1, n + 1)
        path_pay, path_ms = "0/%d" % rng.randrange(5), "1/%d" % rng.randrange(9)
        signers = [network.keys.bip32_seed(b"c05 keychain %d/%d" % (h, i)) for i in range(n)]
        ms_keys = [s.subkey_for_path(path_ms) for s in signers]
        pay_key = signers[0].subkey_for_path(path_pay)
        multisig = network.contract.for_multisig(m, [k.sec() for k in ms_keys])
        unspents = [Tx.TxOut(50000, network.contract.for_p2pkh(pay_key.hash160())), Tx.TxOut(60000, network.contract.for_p2s(multisig))]
        tx = Tx(1, [Tx.TxIn(bytes([0xA1]) * 32, h), Tx.TxIn(bytes([0xB2]) * 32, 3)], [Tx.TxOut(100000, network.contract.for_p2pkh(bytes([3]) * 20))])
        tx.set_unspents(unspents)
        frozen = (tx.version, tx.lock_time, [(i.previous_hash, i.previous_index, i.sequence) for i in tx.txs_in], [(o.coin_value, o.script) for o in tx.txs_out])
        kc = network.keychain()
        for s in signers:
            kc.add_key_paths(s.public_copy(), [path_pay, path_ms])
        kc.add_p2s_script(multisig)
        order = list(range(n))
        rng.shuffle(order)
        added = []
        ok = True
        try:
            tx.sign(kc, p2sh_lookup=kc)          # a pass with no private key at all: every lookup misses
        except Exception:
            pass
        for idx in order:
            kc.add_secret(signers[idx])
            added.append(idx)
            try:
                tx.sign(kc, p2sh_lookup=kc)
                got = [tx.is_solution_ok(i, flags=std) for i in range(2)]
            except Exception as ex:
                got = repr(ex)
            want = [0 in added, len(added) >= m]
            if got != want:
                t.violation("signing with one Keychain across passes: after adding the private keys of co-signers %s (m=%d of n=%d) the inputs "
                            "validate as %s, expected %s" % (added, m, n, got, want),
                            {"history": h, "m": m, "n": n, "order": order, "added": list(added), "got": str(got), "want": want},
                            finding_key="keychain-history-verdict-wrong")
                ok = False
                break
        now = (tx.version, tx.lock_time, [(i.previous_hash, i.previous_index, i.sequence) for i in tx.txs_in], [(o.coin_value, o.script) for o in tx.txs_out])
        if now != frozen:
            t.violation("signing changed something other than unlocking data", {"history": h}, finding_key="sign-changes-committed-fields")
            ok = False
        t.case(("kc", h), nontrivial=ok, sample={"m": m, "n": n, "order": order})
    return t.result()
