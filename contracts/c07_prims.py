"""C07/C16 primitives: compact size, var-string."""
from pyvc.api import *
from spec.core import *


@contract("pycoin.satoshi.satoshi_int:stream_satoshi_int")
class stream_satoshi_int:
    props = ["C07", "C16"]
    sig = dict(f=WFile(), v=Int())
    assigns = ["f"]

    def requires(f, v):
        return 0 <= v and v < 2 ** 64

    def ensures_wire(f, v, result):
        return (fdata(f) == old(fdata(f)) + compact_size(v), result is None)

    canaries = [("v <= 65535", "v < 65535"), ("v < 253", "v <= 253")]
