"""C07/C16 primitives: compact size, var-string."""
from pyvc.api import *
from spec.core import *


@contract("pycoin.satoshi.satoshi_int:stream_satoshi_int")
class stream_satoshi_int:
    props = ["C07", "C16"]
    sig = dict(f=WFile(), v=Int())
    assigns = ["f"]
    options = {'reveal': ['compact_size']}

    def requires(f, v):
        return 0 <= v and v < 2 ** 64

    def ensures_wire(f, v, result):
        return (fdata(f) == old(fdata(f)) + compact_size(v), result is None)

    canaries = [("v <= 65535", "v < 65535"), ("v < 253", "v <= 253")]


@contract("pycoin.satoshi.satoshi_int:parse_satoshi_int")
class parse_satoshi_int:
    props = ["C07", "C16"]
    sig = dict(f=RFile(), v=Const(None))
    returns = Int()
    assigns = ["f"]

    def requires(f, v):
        return v is None and cs_ok(fdata(f), fpos(f))

    def ensures_value(f, v, result):
        return (result == cs_value(old(fdata(f)), old(fpos(f))),
                fpos(f) == old(fpos(f)) + cs_len(old(fdata(f))[old(fpos(f))]),
                fdata(f) == old(fdata(f)), 0 <= result, result < 2 ** 64)

    canaries = [("v == 254", "v == 255"), ("f.read(2)", "f.read(4)")]


@lemma(sig=dict(v=Int(0, 2 ** 64 - 1), pre=Bytes(), rest=Bytes()), options={'reveal': ['compact_size']}, props=["C07", "C16"])
def cs_roundtrip(v, pre, rest):
    """decoding the canonical encoding of v (anywhere in a buffer) gives v and consumes exactly it"""
    d = pre + compact_size(v) + rest
    p = len(pre)
    return (cs_ok(d, p), cs_value(d, p) == v, cs_len(d[p]) == len(compact_size(v)))


@contract("pycoin.satoshi.satoshi_string:stream_satoshi_string")
class stream_satoshi_string:
    props = ["C07", "C16"]
    sig = dict(f=WFile(), v=Bytes())
    assigns = ["f"]
    options = {'reveal': ['varstr']}

    def requires(f, v):
        return len(v) < 2 ** 64

    def ensures_wire(f, v, result):
        return fdata(f) == old(fdata(f)) + varstr(v)


@contract("pycoin.satoshi.satoshi_string:parse_satoshi_string")
class parse_satoshi_string:
    props = ["C07", "C16"]
    sig = dict(f=RFile())
    returns = Bytes()
    assigns = ["f"]

    def requires(f):
        # a length prefix of 2^63 or more cannot be satisfied by any buffer (CPython raises OverflowError on such a read)
        return cs_ok(fdata(f), fpos(f)) and cs_value(fdata(f), fpos(f)) < 2 ** 63

    def ensures_value(f, result):
        d = old(fdata(f))
        p = old(fpos(f))
        n = cs_value(d, p)
        start = p + cs_len(d[p])
        return (result == d[start:start + n], fpos(f) == start + len(result), fdata(f) == d)


# ---------------------------------------------------------------- parse(stream(v)) == v for the two primitive codecs
import io as _io
from pycoin.satoshi.satoshi_int import parse_satoshi_int as _psi, stream_satoshi_int as _ssi
from pycoin.satoshi.satoshi_string import parse_satoshi_string as _pss, stream_satoshi_string as _sss


def roundtrip_satoshi_int(v, rest):
    f = _io.BytesIO()
    _ssi(f, v)
    g = _io.BytesIO(f.getvalue() + rest)
    return _psi(g), g.tell()


def roundtrip_satoshi_string(v, rest):
    f = _io.BytesIO()
    _sss(f, v)
    g = _io.BytesIO(f.getvalue() + rest)
    return _pss(g), g.tell()


@contract("contracts.c07_prims:roundtrip_satoshi_int")
class c_roundtrip_satoshi_int:
    """a compact-size count written and read back (whatever follows it): same value, exactly its bytes consumed"""
    props = ["C07", "C16"]
    sig = dict(v=Int(0, 2 ** 64 - 1, interesting=[0, 252, 253, 65535, 65536, 2 ** 32 - 1, 2 ** 32]), rest=Bytes(sample_max=3))

    def hints(v, rest):
        cs_roundtrip(v, b"", rest)

    def ensures_same(v, rest, result):
        return (result[0] == v, result[1] == len(compact_size(v)))


@contract("contracts.c07_prims:roundtrip_satoshi_string")
class c_roundtrip_satoshi_string:
    props = ["C07", "C16"]
    sig = dict(v=Bytes(sample_max=300, interesting=[b"", bytes(252), bytes(253)]), rest=Bytes(sample_max=3))
    options = {'reveal': ['varstr']}

    def requires(v, rest):
        return len(v) < 2 ** 32

    def hints(v, rest):
        cs_roundtrip(len(v), b"", v + rest)

    def ensures_same(v, rest, result):
        return (result[0] == v, result[1] == len(varstr(v)))
