"""C07/C16 primitives: compact size, var-string."""
from pyvc.api import *
from spec.core import *


@contract("pycoin.satoshi.satoshi_int:stream_satoshi_int")
class stream_satoshi_int:
    props = ["C07", "C16"]
    sig = dict(f=WFile(), v=Int())
    assigns = ["f"]
    options = {'reveal': ['compact_size']}

    def requires(f, v):
        return 0 <= v and v < 2 ** 64

    def ensures_wire(f, v, result):
        return (fdata(f) == old(fdata(f)) + compact_size(v), result is None)

    canaries = [("v <= 65535", "v < 65535"), ("v < 253", "v <= 253")]


@contract("pycoin.satoshi.satoshi_int:parse_satoshi_int")
class parse_satoshi_int:
    props = ["C07", "C16"]
    sig = dict(f=RFile(), v=Const(None))
    returns = Int()
    assigns = ["f"]

    def requires(f, v):
        return v is None and cs_ok(fdata(f), fpos(f))

    def ensures_value(f, v, result):
        return (result == cs_value(old(fdata(f)), old(fpos(f))),
                fpos(f) == old(fpos(f)) + cs_len(old(fdata(f))[old(fpos(f))]),
                fdata(f) == old(fdata(f)), 0 <= result, result < 2 ** 64)

    canaries = [("v == 254", "v == 255"), ("f.read(2)", "f.read(4)")]


@lemma(sig=dict(v=Int(0, 2 ** 64 - 1), pre=Bytes(), rest=Bytes()), options={'reveal': ['compact_size']}, props=["C07", "C16"])
def cs_roundtrip(v, pre, rest):
    """decoding the canonical encoding of v (anywhere in a buffer) gives v and consumes exactly it"""
    d = pre + compact_size(v) + rest
    p = len(pre)
    return (cs_ok(d, p), cs_value(d, p) == v, cs_len(d[p]) == len(compact_size(v)))


@contract("pycoin.satoshi.satoshi_string:stream_satoshi_string")
class stream_satoshi_string:
    props = ["C07", "C16"]
    sig = dict(f=WFile(), v=Bytes())
    assigns = ["f"]
    options = {'reveal': ['varstr']}

    def requires(f, v):
        return len(v) < 2 ** 64

    def ensures_wire(f, v, result):
        return fdata(f) == old(fdata(f)) + varstr(v)


@contract("pycoin.satoshi.satoshi_string:parse_satoshi_string")
class parse_satoshi_string:
    props = ["C07", "C16"]
    sig = dict(f=RFile())
    returns = Bytes()
    assigns = ["f"]

    def requires(f):
        # a length prefix of 2^63 or more cannot be satisfied by any buffer (CPython raises OverflowError on such a read)
        return cs_ok(fdata(f), fpos(f)) and cs_value(fdata(f), fpos(f)) < 2 ** 63

    def ensures_value(f, result):
        d = old(fdata(f))
        p = old(fpos(f))
        n = cs_value(d, p)
        start = p + cs_len(d[p])
        return (result == d[start:start + n], fpos(f) == start + len(result), fdata(f) == d)
