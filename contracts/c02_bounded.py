"""C02 Tier B (bounded stand-in): elliptic-curve arithmetic is the group law on every curve and backend.

Oracle: the property statement.  Reference = an independent brute-force enumeration of the curve's points and an
independent affine chord/tangent table (pow(x, -1, p)); the reference table itself is validated to be the cyclic
group Z_N before pycoin is compared with it.  Production curves: pure-Python pycoin.ecdsa.Generator.Generator vs the
OpenSSL-accelerated generators vs an independent Jacobian/affine reference ladder.

Backends in this sandbox: OpenSSL (libcrypto) loadable; libsecp256k1 NOT loadable (the LibSECP256K1Optimizations
mix-in is a no-op class here), so the libsecp256k1 configuration is not covered.
"""
import random

from pyvc.bounded import bounded, Tally

from pycoin.ecdsa.Curve import Curve
from pycoin.ecdsa.Point import Point
from pycoin.ecdsa.Generator import Generator
from pycoin.ecdsa.encrypt import generate_shared_public_key

INF = (None, None)
REPO_HDR = "import sys; sys.path[:0]=['/repo']; "


# ----------------------------------------------------------------------------------------------- reference
def _is_prime(n):
    if n < 2:
        return False
    i = 2
    while i * i <= n:
        if n % i == 0:
            return False
        i += 1
    return True


def _is_probable_prime(n):
    return n > 3 and all(pow(w, n - 1, n) == 1 for w in (2, 3, 5, 7, 11, 13))


def ref_add(P, Q, p, a):
    """independent affine group law; None is the point at infinity"""
    if P is None:
        return Q
    if Q is None:
        return P
    x1, y1 = P
    x2, y2 = Q
    if x1 == x2:
        if (y1 + y2) % p == 0:
            return None
        lam = (3 * x1 * x1 + a) * pow(2 * y1, -1, p) % p
    else:
        lam = (y2 - y1) * pow(x2 - x1, -1, p) % p
    x3 = (lam * lam - x1 - x2) % p
    return (x3, (lam * (x1 - x3) - y1) % p)


def ref_neg(P, p):
    return None if P is None else (P[0], (-P[1]) % p)


def ref_mul(P, k, p, a, n=None):
    """double-and-add, MSB first; negative k handled by negating the point"""
    if n is not None:
        k %= n
    if k < 0:
        P, k = ref_neg(P, p), -k
    R = None
    for bit in bin(k)[2:] if k else "":
        R = ref_add(R, R, p, a)
        if bit == "1":
            R = ref_add(R, P, p, a)
    return R


class RefGroup(object):
    """brute-force table for a toy curve: points[0] is infinity (None)"""

    def __init__(self, p, a, b, pts):
        self.p, self.a, self.b = p, a, b
        self.points = [None] + pts
        self.N = len(self.points)
        self.index = {P: i for i, P in enumerate(self.points)}
        idx = self.index
        self.table = [[idx[ref_add(P, Q, p, a)] for Q in self.points] for P in self.points]
        self.neg = [idx[ref_neg(P, p)] for P in self.points]

    def self_check(self):
        """the table is the cyclic group Z_N: i*g -> i is a bijection and a homomorphism (N^2 checks)"""
        N, T = self.N, self.table
        g = 1
        mult = [0]
        for _ in range(N - 1):
            mult.append(T[mult[-1]][g])
        if sorted(mult) != list(range(N)) or T[mult[-1]][g] != 0:
            return False
        self.log = {pt: i for i, pt in enumerate(mult)}
        self.exp = mult
        for i in range(N):
            for j in range(N):
                if T[mult[i]][mult[j]] != mult[(i + j) % N]:
                    return False
        return all(T[i][self.neg[i]] == 0 for i in range(N))

    def times(self, i, k):
        """k * points[i] by REPEATED ADDITION in the table (negative k: repeated addition of the inverse)"""
        base = i if k >= 0 else self.neg[i]
        acc = 0
        for _ in range(abs(k)):
            acc = self.table[acc][base]
        return acc


_TOY_CACHE = {}


def toy_curves(pmax):
    """all (p, a, b) with p prime, p = 3 mod 4, p <= pmax, non-singular, group order an odd prime"""
    if pmax in _TOY_CACHE:
        return _TOY_CACHE[pmax]
    out = []
    for p in range(3, pmax + 1):
        if not _is_prime(p) or p % 4 != 3:
            continue
        sq = {}
        for y in range(p):
            sq.setdefault(y * y % p, []).append(y)
        for a in range(p):
            for b in range(p):
                if (4 * a * a * a + 27 * b * b) % p == 0:
                    continue
                pts = [(x, y) for x in range(p) for y in sq.get((x * x * x + a * x + b) % p, [])]
                N = len(pts) + 1
                if N % 2 == 1 and _is_prime(N):
                    out.append((p, a, b, pts))
    _TOY_CACHE[pmax] = out
    return out


def tup(P):
    return (P[0], P[1])


def to_ref(P):
    return None if tup(P) == INF else tup(P)


class V(object):
    """violation recorder: at most 2 per finding_key so that one defect cannot crowd out the others"""

    def __init__(self, t):
        self.t = t
        self.count = {}

    def __call__(self, key, what, inputs, repro):
        c = self.count.get(key, 0)
        self.count[key] = c + 1
        if c < 2:
            self.t.violation(what=what, inputs=inputs, repro=repro, finding_key=key)


def well_formed(P, curve_obj, p, a, b):
    """result is a pycoin Point attached to the curve, reduced coordinates, on the curve (own equation check)"""
    if not isinstance(P, Point):
        return False
    if tup(P) == INF:
        return True
    x, y = P
    return (isinstance(x, int) and isinstance(y, int) and 0 <= x < p and 0 <= y < p
            and (y * y - x * x * x - a * x - b) % p == 0)


def fixed_entropy(v):
    return lambda n: int(v).to_bytes(n, "big")


class BlindGenerator(Generator):
    """Generator.__new__ takes exactly (p, a, b, basis, order), so the documented entropy_f argument of
    Generator.__init__ cannot be passed through the shipped constructor (TypeError from __new__).  This subclass only
    widens __new__; __init__, raw_mul, __mul__ and everything else are the real ones."""

    def __new__(cls, p, a, b, basis, order, entropy_f=None):
        return tuple.__new__(cls, basis)


def make_generator(v, cls, p, a, b, base, n, **kw):
    """construct a Generator; a constructor failure on valid parameters (it runs 256 doublings and one fixed-base
    multiplication) is itself a violation of the group-law property"""
    try:
        return cls(p, a, b, base, n, **kw)
    except Exception as e:  # noqa
        v("generator-construction-raises", "Generator(p,a,b,G,n) on a valid prime-order curve raises %s: %s" % (type(e).__name__, str(e)[:100]),
          (p, a, b, base, n), REPO_HDR + "from pycoin.ecdsa.Generator import Generator; Generator(%d,%d,%d,(%d,%d),%d)" % (p, a, b, base[0], base[1], n))
        return None


def _toy_pmax(opts, quick=31, thorough=59):
    return quick if opts.get("tier") == "quick" else thorough


# --------------------------------------------------------------------------------- (a) toy curves, group law
@bounded("C02.toy_group_law", props=["C02"],
         bound="all prime-odd-order curves y^2=x^3+ax+b over F_p, p=3 mod 4, p<=59 (quick: p<=31): all ordered pairs "
               "(P,Q) incl. infinity, P=Q, P=-Q for + (and for binary - and the direct commutativity check when p<=31; 300 seeded pairs + "
               "all pairs with infinity and P=Q beyond); all P for unary minus (incl. infinity and Generator "
               "instances: every base point for p<=11 (quick: p<=7), 2 (quick: 1) per curve beyond); all triples for N<=13, "
               "400 (quick: 100) seeded triples per curve beyond")
def c02_toy_group_law(opts):
    rng = random.Random(opts["seed"])
    quick = opts.get("tier") == "quick"
    t = Tally(rule="one case per (curve, operation, operand tuple); nontrivial = no operand is infinity")
    v = V(t)
    curves = toy_curves(_toy_pmax(opts))
    exhaustive_triples = True
    for (p, a, b, pts) in curves:
        ref = RefGroup(p, a, b, pts)
        assert ref.self_check(), "reference table is not a group: harness bug"
        N = ref.N
        cv = Curve(p, a, b, N)
        objs = [cv.infinity()] + [cv.Point(x, y) for (x, y) in pts]
        cid = (p, a, b)
        hdr = REPO_HDR + "from pycoin.ecdsa.Curve import Curve; c=Curve(%d,%d,%d,%d); " % (p, a, b, N)

        def pt_src(P):
            return "c.infinity()" if P is None else "c.Point(%d,%d)" % P
        # identity object
        t.case(key=(cid, "inf"), nontrivial=False)
        if tup(cv.infinity()) != INF:
            v("infinity-not-none", "Curve.infinity() is not (None, None)", cid, hdr + "print(c.infinity())")
        # negation of every point INCLUDING infinity
        for i, P in enumerate(objs):
            t.case(key=(cid, "neg", i), nontrivial=i != 0, sample={"curve": cid, "op": "neg", "P": ref.points[i]})
            try:
                R = -P
                ok = well_formed(R, cv, p, a, b) and ref.index.get(to_ref(R)) == ref.neg[i]
                why = "-P is not the group inverse"
                key = "neg-wrong-value"
            except Exception as e:  # noqa
                ok, why = False, "-P raises %s" % type(e).__name__
                key = "neg-infinity-typeerror" if i == 0 else "neg-raises"
            if not ok:
                v(key, why, (cid, ref.points[i]), hdr + "print(-%s)" % pt_src(ref.points[i]))
        # all ordered pairs: add; sub (= add of the negation, negation itself is checked for every point) on all ordered
        # pairs for p<=31, on 300 seeded pairs + every pair involving infinity beyond
        sub_pairs = None if p <= 31 else set([(rng.randrange(N), rng.randrange(N)) for _ in range(300)] + [(0, j) for j in range(N)] + [(j, 0) for j in range(N)] + [(j, j) for j in range(N)])
        for i, P in enumerate(objs):
            for j, Q in enumerate(objs):
                nt = i != 0 and j != 0
                t.case(key=(cid, "add", i, j), nontrivial=nt)
                try:
                    R = P + Q
                    ok = well_formed(R, cv, p, a, b) and ref.index.get(to_ref(R)) == ref.table[i][j]
                    why = "P+Q differs from the group law"
                except Exception as e:  # noqa
                    ok, why = False, "P+Q raises %s" % type(e).__name__
                if not ok:
                    v("add-wrong", why, (cid, ref.points[i], ref.points[j]),
                      hdr + "print(%s + %s)" % (pt_src(ref.points[i]), pt_src(ref.points[j])))
                if sub_pairs is not None and (i, j) not in sub_pairs:
                    continue
                t.case(key=(cid, "sub", i, j), nontrivial=nt)
                try:
                    R = P - Q
                    ok = well_formed(R, cv, p, a, b) and ref.index.get(to_ref(R)) == ref.table[i][ref.neg[j]]
                    why, key = "P-Q differs from P+(-Q)", "sub-wrong"
                except Exception as e:  # noqa
                    ok, why = False, "P-Q raises %s" % type(e).__name__
                    key = "neg-infinity-typeerror" if j == 0 else "sub-raises"
                if not ok:
                    v(key, why + (" (Q is infinity)" if j == 0 else ""), (cid, ref.points[i], ref.points[j]),
                      hdr + "print(%s - %s)" % (pt_src(ref.points[i]), pt_src(ref.points[j])))
        # commutativity / identity / inverse stated directly on pycoin results (no reference involved)
        for i, P in enumerate(objs):
            t.case(key=(cid, "ident", i), nontrivial=i != 0)
            if tup(P + objs[0]) != tup(P) or tup(objs[0] + P) != tup(P):
                v("identity-wrong", "P+inf != P", (cid, ref.points[i]), hdr + "P=%s; print(P+c.infinity())" % pt_src(ref.points[i]))
            if i:
                Pn = cv.Point(P[0], (-P[1]) % p)
                t.case(key=(cid, "inv", i))
                if tup(P + Pn) != INF:
                    v("inverse-wrong", "P+(-P) != infinity", (cid, ref.points[i]), hdr + "print(c.Point(%d,%d)+c.Point(%d,%d))" % (P[0], P[1], Pn[0], Pn[1]))
            for j in range(i):
                if sub_pairs is not None and (i, j) not in sub_pairs and (j, i) not in sub_pairs:
                    continue
                Q = objs[j]
                t.case(key=(cid, "comm", i, j), nontrivial=j != 0)
                if tup(P + Q) != tup(Q + P):
                    v("add-not-commutative", "P+Q != Q+P", (cid, ref.points[i], ref.points[j]), hdr + "P=%s;Q=%s;print(P+Q,Q+P)" % (pt_src(ref.points[i]), pt_src(ref.points[j])))
        # associativity
        if N <= 13:
            triples = ((i, j, k) for i in range(N) for j in range(N) for k in range(N))
        else:
            exhaustive_triples = False
            triples = [(rng.randrange(N), rng.randrange(N), rng.randrange(N)) for _ in range(100 if quick else 400)]
        for (i, j, k) in triples:
            t.case(key=(cid, "assoc", i, j, k), nontrivial=bool(i and j and k))
            try:
                l = (objs[i] + objs[j]) + objs[k]
                r = objs[i] + (objs[j] + objs[k])
                ok = tup(l) == tup(r) and ref.index.get(to_ref(l)) == ref.table[ref.table[i][j]][k]
            except Exception:  # noqa
                ok = False
            if not ok:
                v("add-not-associative", "(P+Q)+R != P+(Q+R)", (cid, i, j, k),
                  hdr + "P,Q,R=%s,%s,%s;print((P+Q)+R,P+(Q+R))" % tuple(pt_src(ref.points[_]) for _ in (i, j, k)))
        # unreduced coordinates (x+p, y-p...) are still the same group element: result congruent to the table
        for _ in range(20):
            i, j = rng.randrange(1, N), rng.randrange(1, N)
            (x0, y0), (x1, y1) = ref.points[i], ref.points[j]
            dx0, dy0, dx1, dy1 = [rng.choice((-p, 0, p, 2 * p)) for _ in range(4)]
            t.case(key=(cid, "unreduced", i, j, dx0, dy0, dx1, dy1))
            try:
                R = cv.Point(x0 + dx0, y0 + dy0) + cv.Point(x1 + dx1, y1 + dy1)
                Rr = None if tup(R) == INF else (R[0] % p, R[1] % p)
                ok = ref.index.get(Rr) == ref.table[i][j]
            except Exception:  # noqa
                ok = False
            if not ok:
                v("add-unreduced-wrong", "addition of points given with unreduced coordinates is not the group law",
                  (cid, (x0 + dx0, y0 + dy0), (x1 + dx1, y1 + dy1)),
                  hdr + "print(c.Point(%d,%d)+c.Point(%d,%d))" % (x0 + dx0, y0 + dy0, x1 + dx1, y1 + dy1))
        # Generator instances: G is a Point too: -G, G+P, P+G, G-P, P-G, inf-G for every P
        bases = pts if p <= (7 if quick else 11) else [pts[0], pts[rng.randrange(len(pts))]][quick:]
        for base in bases:
            gi = ref.index[base]
            G = make_generator(v, Generator, p, a, b, base, N)
            if G is None:
                continue
            ghdr = REPO_HDR + "from pycoin.ecdsa.Generator import Generator; G=Generator(%d,%d,%d,(%d,%d),%d); " % (p, a, b, base[0], base[1], N)
            t.case(key=(cid, "negG", gi))
            try:
                R = -G
                ok = well_formed(R, G, p, a, b) and ref.index.get(to_ref(R)) == ref.neg[gi]
                why, key = "-G is not the inverse of G", "neg-wrong-value"
            except Exception as e:  # noqa
                ok, why, key = False, "-G raises %s for a Generator instance" % type(e).__name__, "neg-generator-typeerror"
            if not ok:
                v(key, why, (cid, base), ghdr + "print(-G)")
            t.case(key=(cid, "neg-inf-G", gi), nontrivial=False)
            try:
                ok = tup(-G.infinity()) == INF
                why = "-infinity != infinity"
            except Exception as e:  # noqa
                ok, why = False, "-infinity raises %s" % type(e).__name__
            if not ok:
                v("neg-infinity-typeerror", why + " (Generator.infinity())", (cid, base), ghdr + "print(-G.infinity())")
            gobjs = [G.infinity()] + [G.Point(x, y) for (x, y) in pts]
            for j, Q in enumerate(gobjs):
                for (nm, f, exp, key) in (("G+Q", lambda: G + Q, ref.table[gi][j], "add-wrong"),
                                          ("Q+G", lambda: Q + G, ref.table[j][gi], "add-wrong"),
                                          ("G-Q", lambda: G - Q, ref.table[gi][ref.neg[j]], "sub-wrong"),
                                          ("Q-G", lambda: Q - G, ref.table[j][ref.neg[gi]], "sub-wrong")):
                    t.case(key=(cid, nm, gi, j), nontrivial=j != 0)
                    try:
                        R = f()
                        ok = well_formed(R, G, p, a, b) and ref.index.get(to_ref(R)) == exp
                        why = "%s differs from the group law" % nm
                    except Exception as e:  # noqa
                        ok, why = False, "%s raises %s" % (nm, type(e).__name__)
                        if nm == "Q-G":
                            key = "neg-generator-typeerror"
                        elif nm == "G-Q" and j == 0:
                            key = "neg-infinity-typeerror"
                        else:
                            key = key + "-raises"
                    if not ok:
                        qs = "G.infinity()" if j == 0 else "G.Point(%d,%d)" % ref.points[j]
                        v(key, why, (cid, base, ref.points[j]), ghdr + "Q=%s; print(%s)" % (qs, nm))
    t.exhaustive = exhaustive_triples
    res = t.result()
    res["curves"] = len(curves)
    res["violation_counts"] = dict(v.count)
    return res


# ------------------------------------------------------------------------ (a) toy curves, scalar multiplication
@bounded("C02.toy_scalar_mul", props=["C02"],
         bound="same toy curves (quick: p<=23); k*P and P*k vs repeated addition for all k in [-2n,3n]: every point P (incl. infinity) "
               "for p<=23 (quick: p<=11), 1 seeded point + infinity per curve beyond; boundary k {0,+-1,+-n,n+-1,2n,3n,"
               "+-(2^256+1), 10^30} for every P (p>23 or quick: for every P on the order-carrying Curve, for the swept points on the "
               "other two configurations); order*P = infinity for every P; Curve objects with and without a stored "
               "order (no order: k>=0 only), Generator.multiply; ECDH commutation d1*(d2*G)==d2*(d1*G)")
def c02_toy_scalar_mul(opts):
    rng = random.Random(opts["seed"])
    quick = opts.get("tier") == "quick"
    full_p = 11 if quick else 23
    t = Tally(rule="one case per (curve, configuration, point, scalar); nontrivial = P != infinity and k mod n not in {0,1}")
    v = V(t)
    curves = toy_curves(_toy_pmax(opts, quick=23))
    all_full = True
    for (p, a, b, pts) in curves:
        ref = RefGroup(p, a, b, pts)
        assert ref.self_check()
        N = ref.N
        cid = (p, a, b)
        cv = Curve(p, a, b, N)
        cv0 = Curve(p, a, b)  # no stored order
        G = make_generator(v, BlindGenerator, p, a, b, pts[rng.randrange(len(pts))], N, entropy_f=fixed_entropy(rng.randrange(N)))
        if G is None:
            continue
        if p <= full_p:
            idxs = list(range(N))
        else:
            all_full = False
            idxs = [0] + rng.sample(range(1, N), 1)
        big = [0, 1, -1, 2, N - 1, N, N + 1, -N, -N - 1, 1 - N, 2 * N, 3 * N, -2 * N, 2 ** 256 + 1, -(2 ** 256 + 1), 10 ** 30]
        bigset = set(big)
        for i in range(N):
            ks = list(range(-2 * N, 3 * N + 1)) + big if i in idxs else big
            P = ref.points[i]
            # repeated addition, incrementally: mults[k] = k*P for k in 0..N-1 (then periodic: N*P = infinity is
            # itself checked on the table)
            mults = [0]
            for _ in range(N):
                mults.append(ref.table[mults[-1]][i])
            assert mults[N] == 0
            for (cname, c, allow_neg) in (("order", cv, True), ("noorder", cv0, False), ("generator", G, True)):
                Pobj = c.infinity() if P is None else c.Point(*P)
                for k in ks:
                    if k < 0 and not allow_neg:
                        continue
                    if cname != "order" and i not in idxs and (quick or p > 23 or abs(k) > 3 * N):
                        continue
                    if cname == "noorder" and k > 3 * N:
                        continue
                    exp = mults[k % N]
                    t.case(key=(cid, cname, i, k), nontrivial=i != 0 and k % N not in (0, 1),
                           sample={"curve": cid, "P": P, "k": k, "expect": ref.points[exp]})
                    try:
                        R1 = Pobj * k
                        R2 = k * Pobj if (k in bigset or i == idxs[-1]) else R1   # __rmul__ path
                        ok = (well_formed(R1, c, p, a, b) and tup(R1) == tup(R2)
                              and ref.index.get(to_ref(R1)) == exp)
                        why = "k*P differs from P added k times"
                    except Exception as e:  # noqa
                        ok, why = False, "k*P raises %s" % type(e).__name__
                    if not ok:
                        src = {"order": "from pycoin.ecdsa.Curve import Curve; c=Curve(%d,%d,%d,%d); " % (p, a, b, N),
                               "noorder": "from pycoin.ecdsa.Curve import Curve; c=Curve(%d,%d,%d); " % (p, a, b),
                               "generator": "from pycoin.ecdsa.Generator import Generator; c=Generator(%d,%d,%d,(%d,%d),%d); " % (p, a, b, G[0], G[1], N)}[cname]
                        v("scalar-mul-wrong" + ("" if cname == "order" else "-" + cname), why + " [%s]" % cname, (cid, P, k),
                          REPO_HDR + src + "P=%s; print(P*%d, %d*P)" % ("c.infinity()" if P is None else "c.Point(%d,%d)" % P, k, k))
            # spot-check the reference itself against literal repeated addition
            if i in idxs[:2]:
                for k in (-2 * N, -3, 2 * N + 1):
                    assert ref.times(i, k) == mults[k % N]
        # the Generator object itself used as the point operand of the generic ladder: multiply(G, k)
        gi = ref.index[tup(G)]
        for k in range(0, N + 1):
            t.case(key=(cid, "multiply(G,k)", gi, k), nontrivial=k % N not in (0, 1))
            try:
                R = Curve.multiply(G, G, k)
                ok = ref.index.get(to_ref(R)) == ref.times(gi, k)
                why, key = "Curve.multiply(G, k) with G the Generator object is wrong", "scalar-mul-wrong-generator-operand"
            except TypeError:
                ok, why, key = False, "Curve.multiply(G, k) raises TypeError when the point operand is the Generator object (ladder evaluates -G)", "neg-generator-typeerror"
            except Exception as e:  # noqa
                ok, why, key = False, "Curve.multiply(G, k) raises %s" % type(e).__name__, "scalar-mul-wrong-generator-operand"
            if not ok:
                v(key, why, (cid, tup(G), k), REPO_HDR + "from pycoin.ecdsa.Generator import Generator; G=Generator(%d,%d,%d,(%d,%d),%d); print(G.multiply(G,%d))" % (p, a, b, G[0], G[1], N, k))
        # ECDH: generate_shared_public_key commutes
        for _ in range(2):
            d1, d2 = rng.randrange(1, N), rng.randrange(1, N)
            t.case(key=(cid, "ecdh", tup(G), d1, d2))
            try:
                Gpt = G.Point(G[0], G[1])   # the base as a plain Point (the Generator object itself cannot be negated)
                Q1, Q2 = Gpt * d1, Gpt * d2
                s1 = generate_shared_public_key(d1, tup(Q2), G)
                s2 = generate_shared_public_key(d2, tup(Q1), G)
                ok = tup(s1) == tup(s2) == tup(Gpt * (d1 * d2))
            except Exception:  # noqa
                ok = False
            if not ok:
                v("ecdh-not-commutative", "generate_shared_public_key(d1, d2*G) != generate_shared_public_key(d2, d1*G)", (cid, tup(G), d1, d2), None)
    t.exhaustive = all_full
    res = t.result()
    res["curves"] = len(curves)
    res["violation_counts"] = dict(v.count)
    return res


# --------------------------------------------------------------- (a) toy curves, blinded fixed-base multiply
# cost note: Generator.raw_mul always performs 256 point additions (~0.8 ms even on a toy curve), so this sweep is the
# expensive one and is planned per tier.
@bounded("C02.toy_generator_blinded", props=["C02"],
         bound="Generator.__mul__ (blinded fixed-base) == plain Point multiplication == repeated addition.  thorough: every "
               "curve p<=59; bases: every point for p<=7, one seeded base beyond; blinding {seeded non-zero, n-1} (+ {0, 1, "
               "os.urandom default} on the first base for p<=11; only the seeded one for p>=31); k: all of [-2n,3n] for p<=23, one full "
               "period [0,n) plus period edges {-2n,-n-1,-n,-1,n,n+1,2n,3n} for p>=31; always + {2^255,2^256-1,2^256,2^256+1,-2^256}.  quick: "
               "all curves p<=11 with 1 seeded base x 2 blinds x all k in [-2n,3n], 40 seeded curves 19<=p<=31 with one "
               "period.  raw_mul(k) and k*G (rmul) on the edge scalars of every sweep")
def c02_toy_generator_blinded(opts):
    rng = random.Random(opts["seed"])
    quick = opts.get("tier") == "quick"
    t = Tally(rule="one case per (curve, base, blinding factor, k); nontrivial = k mod n not in {0,1} and blinding != 0")
    v = V(t)
    curves = toy_curves(_toy_pmax(opts))
    if quick:
        big = [c for c in curves if c[0] > 11]
        curves = [c for c in curves if c[0] <= 11] + rng.sample(big, min(40, len(big)))
    HUGE = [2 ** 255, 2 ** 256 - 1, 2 ** 256, 2 ** 256 + 1, -(2 ** 256)]
    for (p, a, b, pts) in curves:
        ref = RefGroup(p, a, b, pts)
        assert ref.self_check()
        N = ref.N
        cid = (p, a, b)
        cv = Curve(p, a, b, N)
        full_range = p <= (11 if quick else 23)
        edges = [-2 * N, -N - 1, -N, -1, 0, 1, N - 1, N, N + 1, 2 * N, 3 * N] + HUGE
        if full_range:
            ks = list(range(-2 * N, 3 * N + 1)) + HUGE
        else:
            ks = list(range(0, N)) + [k for k in edges if not 0 <= k < N]
        seeded = pts[rng.randrange(len(pts))]
        bases = list(pts) if (p <= 7 and not quick) else [seeded]
        for bi, base in enumerate(bases):
            gi = ref.index[base]
            mults = [0]
            for _ in range(N - 1):
                mults.append(ref.table[mults[-1]][gi])
            plainP = cv.Point(*base)
            blinds = [rng.randrange(1, N), N - 1] if p <= 23 else [rng.randrange(1, N)]
            if bi == 0 and p <= 11 and not quick:
                blinds += [0, 1, None]
            for bf in blinds:
                if bf is None:
                    G = make_generator(v, Generator, p, a, b, base, N)  # default os.urandom blinding
                    if G is None:
                        continue
                    bfv = G._blinding_factor
                else:
                    G = make_generator(v, BlindGenerator, p, a, b, base, N, entropy_f=fixed_entropy(bf))
                    if G is None:
                        continue
                    bfv = bf
                    # the factor actually in use must be the one supplied (else the 'any blinding factor' sweep is void)
                    if G._blinding_factor != bf % N:
                        v("blinding-factor-not-applied", "entropy_f value is not the blinding factor in use", (cid, base, bf), None)
                tag = "urandom" if bf is None else bf
                for k in ks:
                    exp = mults[k % N]
                    t.case(key=(cid, gi, tag, k), nontrivial=k % N not in (0, 1) and bfv != 0,
                           sample={"curve": cid, "G": base, "blind": tag, "k": k, "expect": ref.points[exp]})
                    try:
                        R1 = G * k
                        R4 = plainP * k   # plain (non fixed-base, unblinded) multiplication
                        ok = (well_formed(R1, G, p, a, b) and tup(R1) == tup(R4) and ref.index.get(to_ref(R1)) == exp)
                        if ok and k in edges:
                            ok = tup(k * G) == tup(R1) == tup(G.raw_mul(k))
                        why = "blinded fixed-base k*G differs from plain multiplication / repeated addition"
                    except Exception as e:  # noqa
                        ok, why = False, "k*G raises %s" % type(e).__name__
                    if not ok:
                        v("generator-blinded-mul-wrong", why, (cid, base, tag, k),
                          REPO_HDR + "from pycoin.ecdsa.Generator import Generator; G=Generator(%d,%d,%d,(%d,%d),%d); G._blinding_factor=%d; G._minus_blinding_factor_g=G.raw_mul(-%d); print(G*%d, G.raw_mul(%d))"
                          % (p, a, b, base[0], base[1], N, bfv, bfv, k, k))
    t.exhaustive = False
    res = t.result()
    res["curves"] = len(curves)
    res["violation_counts"] = dict(v.count)
    return res


# --------------------------------------------------------------------------------- (a) toy curves, points_for_x
@bounded("C02.toy_points_for_x", props=["C02"],
         bound="same toy curves; Generator.points_for_x(x) for every 0<=x<p: exactly the two curve points with that x, "
               "even y first, or ValueError when no point has that x")
def c02_toy_points_for_x(opts):
    t = Tally(rule="one case per (curve, x); nontrivial = some curve point has that x")
    v = V(t)
    curves = toy_curves(_toy_pmax(opts))
    for (p, a, b, pts) in curves:
        N = len(pts) + 1
        cid = (p, a, b)
        G = make_generator(v, Generator, p, a, b, pts[0], N)
        if G is None:
            continue
        by_x = {}
        for (x, y) in pts:
            by_x.setdefault(x, []).append(y)
        for x in range(p):
            ys = sorted(by_x.get(x, []))
            t.case(key=(cid, x), nontrivial=bool(ys), sample={"curve": cid, "x": x, "ys": ys})
            repro = REPO_HDR + "from pycoin.ecdsa.Generator import Generator; G=Generator(%d,%d,%d,(%d,%d),%d); print(G.points_for_x(%d))" % (p, a, b, pts[0][0], pts[0][1], N, x)
            try:
                r = G.points_for_x(x)
                got = [tup(_) for _ in r]
                if not ys:
                    v("points-for-x-phantom", "points_for_x returns points for an x with no curve point", (cid, x, got), repro)
                    continue
                assert len(ys) == 2  # odd order: no 2-torsion, so never a single point
                even = [y for y in ys if y % 2 == 0][0]
                odd = [y for y in ys if y % 2 == 1][0]
                if got != [(x, even), (x, odd)] or not all(isinstance(_, Point) for _ in r):
                    v("points-for-x-wrong", "points_for_x is not ((x, even y), (x, odd y))", (cid, x, got), repro)
            except ValueError:
                if ys:
                    v("points-for-x-missed", "points_for_x raises although curve points with that x exist", (cid, x, ys), repro)
            except Exception as e:  # noqa
                v("points-for-x-raises", "points_for_x raises %s (not ValueError)" % type(e).__name__, (cid, x), repro)
    t.exhaustive = True
    res = t.result()
    res["curves"] = len(curves)
    res["violation_counts"] = dict(v.count)
    return res


# ----------------------------------------------------------------------------------- (b) production curves
def _scalars(n, rng, nrand):
    base = [0, 1, 2, 3, n - 2, n - 1, n, n + 1, 2 * n - 1, 2 * n + 1, 2 ** 255, 2 ** 256 - 1, 2 ** 256, 2 ** 256 + 1,
            -1, -2, -(n - 1), -n, -(n + 1), -(2 ** 256 - 1)]
    return base + [rng.randrange(1, n) for _ in range(nrand)] + [-rng.randrange(1, n) for _ in range(max(1, nrand // 3))] \
        + [rng.randrange(n, 2 ** 260) for _ in range(max(1, nrand // 3))]


def _named_curves(v=None):
    import importlib
    out = []
    for name in ("secp256k1", "secp256r1"):
        try:
            m = importlib.import_module("pycoin.ecdsa." + name)
        except Exception as e:  # noqa  (the module constructs its generator at import time)
            if v is None:
                raise
            v("generator-construction-raises", "importing pycoin.ecdsa.%s raises %s: %s" % (name, type(e).__name__, str(e)[:100]), name,
              REPO_HDR + "import pycoin.ecdsa.%s" % name)
            continue
        out.append((name, getattr(m, name + "_generator"), (m._p, m._a, m._b, (m._Gx, m._Gy), m._r)))
    return out


@bounded("C02.production_backends", props=["C02"],
         bound="secp256k1, secp256r1: OpenSSL-accelerated shipped generator vs pure-Python Generator on the same "
               "parameters vs independent reference ladder; scalars {0,1,2,3,n-2,n-1,n,n+1,2n+-1,2^255,2^256-1,2^256,"
               "2^256+1, their negatives, seeded random in [1,n), negatives, > n} for G (blinded fixed-base, raw_mul, "
               "Curve.multiply) and for seeded points P; n*G = n*P = infinity; (k1+k2)G = k1G+k2G; -P, P-Q, -G, -infinity; "
               "points_for_x on seeded x and x of known points.  Quick: 8 random scalars, 2 points; thorough: 100, 8")
def c02_production_backends(opts):
    rng = random.Random(opts["seed"])
    quick = opts.get("tier") == "quick"
    nrand, npts = (8, 2) if quick else (100, 8)
    t = Tally(rule="one case per (curve, operation, operands); nontrivial = scalar mod n not in {0,1}")
    v = V(t)
    from pycoin.ecdsa.native.openssl import OpenSSL
    have_ossl = bool(OpenSSL)
    for (name, Gn, (p, a, b, Gxy, n)) in _named_curves(v):
        accelerated = have_ossl and type(Gn).multiply is not Curve.multiply
        Gp = make_generator(v, Generator, p, a, b, Gxy, n)  # pure Python on the same parameters
        if Gp is None:
            continue
        assert type(Gp).multiply is Curve.multiply and type(Gp).raw_mul is Generator.raw_mul
        imp = {"secp256k1": "from pycoin.ecdsa.secp256k1 import secp256k1_generator as G",
               "secp256r1": "from pycoin.ecdsa.secp256r1 import secp256r1_generator as G"}[name]
        hdr = REPO_HDR + imp + "; from pycoin.ecdsa.Generator import Generator; Gp=Generator(G._p,G._a,G._b,(G[0],G[1]),G._order); "
        ks = _scalars(n, rng, nrand)
        for k in ks:
            exp = ref_mul(Gxy, k, p, a, n)
            exp_t = INF if exp is None else exp
            t.case(key=(name, "kG", k), nontrivial=k % n not in (0, 1), sample={"curve": name, "k": hex(k)})
            try:
                got = {"native k*G": k * Gn, "native G*k": Gn * k, "native raw_mul": Gn.raw_mul(k),
                       "native multiply(G,k)": Gn.multiply(Gn, k),
                       "pure k*G": k * Gp, "pure raw_mul": Gp.raw_mul(k), "pure multiply(Gpoint,k)": Curve.multiply(Gp, Gp.Point(*Gxy), k)}
                bad = [nm for nm, R in got.items() if tup(R) != exp_t or not well_formed(R, None, p, a, b)]
                why = "k*G differs between implementations / from the reference: %s" % bad
            except Exception as e:  # noqa
                bad, why = ["raise"], "k*G raises %s" % type(e).__name__
            if bad:
                v("backend-kG-mismatch", why, (name, hex(k)), hdr + "k=%d; print(k*G, k*Gp, G.raw_mul(k), Gp.raw_mul(k))" % k)
        # the pure-Python generic ladder given the Generator object itself as point operand (evaluates -G)
        for k in (2, 3, 5, n - 1):
            t.case(key=(name, "multiply(G,k)", k))
            try:
                ok = to_ref(Curve.multiply(Gp, Gp, k)) == ref_mul(Gxy, k, p, a, n)
                why, key = "Curve.multiply(G, k) wrong with G the Generator object", "scalar-mul-wrong-generator-operand"
            except TypeError:
                ok, why, key = False, "pure-Python Curve.multiply(G, k) raises TypeError when the point operand is the Generator object (ladder evaluates -G)", "neg-generator-typeerror"
            if not ok:
                v(key, why, (name, k), hdr + "print(Generator.multiply(Gp, Gp, %d))" % k)
        # seeded points
        P_list = []
        for _ in range(npts):
            d = rng.randrange(1, n)
            P_list.append((d, ref_mul(Gxy, d, p, a, n)))
        kp = [0, 1, 2, n - 1, n, n + 1, 2 ** 256 - 1, -1, -(n - 1), -n] + [rng.randrange(1, n) for _ in range(3 if quick else 10)]
        for (d, Pxy) in P_list:
            Pn, Pp = Gn.Point(*Pxy), Gp.Point(*Pxy)
            for k in kp:
                exp = ref_mul(Pxy, k, p, a, n)
                exp_t = INF if exp is None else exp
                t.case(key=(name, "kP", d, k), nontrivial=k % n not in (0, 1))
                try:
                    got = {"native": k * Pn, "native*": Pn * k, "pure": k * Pp, "pure-curve": Curve(p, a, b, n).Point(*Pxy) * k}
                    bad = [nm for nm, R in got.items() if tup(R) != exp_t or not well_formed(R, None, p, a, b)]
                    why = "k*P differs between implementations / from the reference: %s" % bad
                except Exception as e:  # noqa
                    bad, why = ["raise"], "k*P raises %s" % type(e).__name__
                if bad:
                    v("backend-kP-mismatch", why, (name, Pxy, hex(k)), hdr + "P=(%d,%d); k=%d; print(k*G.Point(*P), k*Gp.Point(*P))" % (Pxy[0], Pxy[1], k))
            # k*P consistent with (k*d)*G : links variable-base with fixed-base
            k = rng.randrange(1, n)
            t.case(key=(name, "kdG", d, k))
            if tup(k * Pn) != tup((k * d) * Gn) or tup(k * Pp) != tup((k * d % n) * Gp):
                v("kP-vs-kdG", "k*(d*G) != (k*d)*G", (name, d, k), None)
        # homomorphism (k1+k2)G = k1G + k2G, both backends, incl. k1+k2 = n (sum is infinity) and k1 = k2 (doubling)
        pairs = [(1, n - 1), (2, n - 2), (5, 5), (n - 1, n - 1), (0, 7), (7, 0)]
        pairs += [(rng.randrange(1, n), rng.randrange(1, n)) for _ in range(4 if quick else 40)]
        x = rng.randrange(1, n)
        pairs += [(x, n - x), (x, x)]
        for (k1, k2) in pairs:
            t.case(key=(name, "hom", k1, k2))
            try:
                exp = ref_mul(Gxy, k1 + k2, p, a, n)
                exp_t = INF if exp is None else exp
                ok = tup(k1 * Gn + k2 * Gn) == exp_t == tup((k1 + k2) * Gn) and tup(k1 * Gp + k2 * Gp) == exp_t == tup((k1 + k2) * Gp)
                # mixed: point objects of one implementation added to the other's must still be the same element
                ok = ok and tup(Gn.Point(*tup(k1 * Gp)) + k2 * Gn) == exp_t if k1 % n else ok
                why = "(k1+k2)G != k1*G + k2*G"
            except Exception as e:  # noqa
                ok, why = False, "k1*G + k2*G raises %s" % type(e).__name__
            if not ok:
                v("homomorphism-broken", why, (name, k1, k2), hdr + "k1,k2=%d,%d; print(k1*G+k2*G, (k1+k2)*G, k1*Gp+k2*Gp)" % (k1, k2))
        # add / sub / neg on seeded points, both implementations, vs the reference
        for i in range(len(P_list)):
            (d1, P1), (d2, P2) = P_list[i], P_list[(i + 1) % len(P_list)]
            for (lbl, g) in (("native", Gn), ("pure", Gp)):
                A, B = g.Point(*P1), g.Point(*P2)
                t.case(key=(name, "addsub", lbl, d1, d2))
                try:
                    ok = (to_ref(A + B) == ref_add(P1, P2, p, a) and to_ref(A - B) == ref_add(P1, ref_neg(P2, p), p, a)
                          and to_ref(-A) == ref_neg(P1, p) and tup(A + (-A)) == INF and to_ref(A + A) == ref_add(P1, P1, p, a)
                          and tup(A + g.infinity()) == P1 and tup(g.infinity() + A) == P1)
                    why = "add/sub/neg differ from the reference"
                except Exception as e:  # noqa
                    ok, why = False, "add/sub/neg raises %s" % type(e).__name__
                if not ok:
                    v("production-add-wrong", why, (name, lbl, P1, P2), None)
        # negation of the generator object itself and of infinity
        for (lbl, g, src) in (("native", Gn, "G"), ("pure", Gp, "Gp")):
            t.case(key=(name, "negG", lbl))
            try:
                ok = to_ref(-g) == ref_neg(Gxy, p)
                why = "-G wrong value"
                key = "neg-wrong-value"
            except Exception as e:  # noqa
                ok, why, key = False, "-G raises %s for a Generator instance" % type(e).__name__, "neg-generator-typeerror"
            if not ok:
                v(key, why, (name, lbl), hdr + "print(-%s)" % src)
            t.case(key=(name, "neginf", lbl), nontrivial=False)
            try:
                ok = tup(-g.infinity()) == INF
                why = "-infinity != infinity"
            except Exception as e:  # noqa
                ok, why = False, "-infinity raises %s" % type(e).__name__
            if not ok:
                v("neg-infinity-typeerror", why, (name, lbl), hdr + "print(-%s.infinity())" % src)
            t.case(key=(name, "P-G", lbl))
            try:
                ok = to_ref(g.Point(*P_list[0][1]) - g) == ref_add(P_list[0][1], ref_neg(Gxy, p), p, a)
                why = "P-G wrong"
            except Exception as e:  # noqa
                ok, why = False, "P - G raises %s" % type(e).__name__
            if not ok:
                v("neg-generator-typeerror", why, (name, lbl), hdr + "print(2*%s - %s)" % (src, src))
        # points_for_x: x of known points (both y recovered, even first), seeded x (half have no point)
        xs = [Pxy[0] for (_, Pxy) in P_list] + [Gxy[0]] + [rng.randrange(p) for _ in range(6 if quick else 40)] + [0, 1, 2, 3, p - 1, p - 2]
        for x in xs:
            alpha = (x * x * x + a * x + b) % p
            y = pow(alpha, (p + 1) // 4, p)
            has = y * y % p == alpha and y != 0
            t.case(key=(name, "pfx", x), nontrivial=has)
            for (lbl, g) in (("native", Gn), ("pure", Gp)):
                try:
                    r = [tup(_) for _ in g.points_for_x(x)]
                    ye = y if y % 2 == 0 else p - y
                    ok = has and r == [(x, ye), (x, p - ye)]
                except ValueError:
                    ok = not has
                except Exception:  # noqa
                    ok = False
                if not ok:
                    v("points-for-x-wrong", "points_for_x wrong on %s" % lbl, (name, x), hdr + "print(G.points_for_x(%d))" % x)
    t.exhaustive = False
    res = t.result()
    res["violation_counts"] = dict(v.count)
    res["openssl_loaded"] = have_ossl
    res["libsecp256k1_loaded"] = False
    return res


# ------------------------------------------------------------------- (b') other large curves, user-constructed
_LARGE = {
    # name: (p, a, b, Gx, Gy, n, openssl NID or None)
    "P-192": (0xfffffffffffffffffffffffffffffffeffffffffffffffff, -3, 0x64210519e59c80e70fa7e9ab72243049feb8deecc146b9b1,
              0x188da80eb03090f67cbf20eb43a18800f4ff0afd82ff1012, 0x07192b95ffc8da78631011ed6b24cdd573f977a11e794811,
              0xffffffffffffffffffffffff99def836146bc9b1b4d22831, 409),
    "P-384": (2 ** 384 - 2 ** 128 - 2 ** 96 + 2 ** 32 - 1, -3,
              0xb3312fa7e23ee7e4988e056be3f82d19181d9c6efe8141120314088f5013875ac656398d8a2ed19d2a85c8edd3ec2aef,
              0xaa87ca22be8b05378eb1c71ef320ad746e1d3b628ba79b9859f741e082542a385502f25dbf55296c3a545e3872760ab7,
              0x3617de4a96262c6f5d9e98bf9292dc29f8f41dbd289a147ce9da3113b5f0b8c00a60b1ce1d7e819d7a431d7c90ea0e5f,
              0xffffffffffffffffffffffffffffffffffffffffffffffffc7634d81f4372ddf581a0db248b0a77aecec196accc52973, 715),
    "P-521": (2 ** 521 - 1, -3,
              0x0051953eb9618e1c9a1f929a21a0b68540eea2da725b99b315f3b8b489918ef109e156193951ec7e937b1652c0bd3bb1bf073573df883d2c34f1ef451fd46b503f00,
              0x00c6858e06b70404e9cd9e3ecb662395b4429c648139053fb521f828af606b4d3dbaa14b5e77efe75928fe1dc127a2ffa8de3348b3c1856a429bf97e7e31c2e5bd66,
              0x011839296a789a3bc0045c8a5fb42c7d1bd998f54449579b446817afbd17273e662c97ee72995ef42640c550b9013fad0761353c7086a272c24088be94769fd16650,
              int('1' + 'f' * 65 + 'a51868783bf2f966b7fcc0148f709a5d03bb5c9b8899c47aebb6fb71e91386409', 16), 716),
}


@bounded("C02.large_user_curves", props=["C02"],
         bound="user-constructed Generator for NIST P-192, P-384, P-521 (thorough only) (p = 3 mod 4, odd prime order) and the shipped "
               "BLS12-381 G1: pure-Python k*G (fixed-base, blinded), raw_mul, Curve.multiply(G,k), k*P vs independent "
               "reference ladder (and vs an OpenSSL-accelerated Generator of the same NID) for k in {0,1,2,n-1,n,n+1,"
               "2^255,2^256-1,2^256,2^256+1,2^300 if <n, negatives, seeded}; n*G = infinity; homomorphism")
def c02_large_user_curves(opts):
    rng = random.Random(opts["seed"])
    quick = opts.get("tier") == "quick"
    nrand = 2 if quick else 14
    t = Tally(rule="one case per (curve, operation, scalar); nontrivial = scalar mod n not in {0,1}")
    v = V(t)
    from pycoin.ecdsa.native.openssl import OpenSSL, create_OpenSSLOptimizations
    curves = []
    for nm, (p, a, b, gx, gy, n, nid) in _LARGE.items():
        if quick and nm == "P-521":
            continue   # ~0.1 s per pure-Python multiplication: thorough tier only
        assert p % 4 == 3 and (gy * gy - gx ** 3 - a * gx - b) % p == 0
        assert ref_mul((gx, gy), n, p, a % p) is None and _is_probable_prime(n), 'bad curve constants: harness bug'
        curves.append((nm, p, a % p, b, (gx, gy), n, nid, None))
    from pycoin.ecdsa import bls12_381_g1 as bls
    curves.append(("BLS12-381-G1", bls._p, bls._a, bls._b, (bls._Gx, bls._Gy), bls._r, None, bls.bls12_381_g1))
    for (nm, p, a, b, Gxy, n, nid, shipped) in curves:
        G = shipped if shipped is not None else make_generator(v, Generator, p, a, b, Gxy, n)
        if G is None:
            continue
        Gn = None
        if nid is not None and OpenSSL:
            Gn = type("G_" + nm.replace("-", ""), (create_OpenSSLOptimizations(nid), Generator), {})(p, a, b, Gxy, n)
        ctor = ("from pycoin.ecdsa.bls12_381_g1 import bls12_381_g1 as G; " if shipped is not None else
                "from pycoin.ecdsa.Generator import Generator; G=Generator(%d,%d,%d,(%d,%d),%d); " % (p, a, b, Gxy[0], Gxy[1], n))
        ks = [0, 1, 2, n - 1, n, n + 1, 2 ** 255, 2 ** 256 - 1, -1, -2, -(n - 1)]
        ks += [k for k in (2 ** 256, 2 ** 256 + 1, 2 ** 256 + 2 ** 255 + 12345, 2 ** 300, n - 2 ** 200, n // 2) if k not in ks]
        ks += [rng.randrange(1, n) for _ in range(nrand)]
        ks += [rng.randrange(1, min(n, 2 ** 256)) for _ in range(nrand)]   # below the 256-step window as well
        for k in ks:
            exp = ref_mul(Gxy, k, p, a, n)
            exp_t = INF if exp is None else exp
            t.case(key=(nm, "kG", k), nontrivial=k % n not in (0, 1), sample={"curve": nm, "k": hex(k)})
            res = {}
            for lbl, f in (("G*k (blinded fixed-base)", lambda: G * k), ("raw_mul", lambda: G.raw_mul(k)),
                           ("Curve.multiply(Gpoint,k)", lambda: Curve.multiply(G, G.Point(*Gxy), k)),
                           ("Point*k on plain Curve", lambda: Curve(p, a, b, n).Point(*Gxy) * k)):
                try:
                    res[lbl] = tup(f())
                except Exception as e:  # noqa
                    res[lbl] = "raises %s" % type(e).__name__
            if Gn is not None:
                try:
                    res["openssl G*k"] = tup(Gn * k)
                except Exception as e:  # noqa
                    res["openssl G*k"] = "raises %s" % type(e).__name__
            bad = sorted(l for l, r in res.items() if r != exp_t)
            if bad:
                fixed = [l for l in bad if l.startswith("G*k") or l == "raw_mul"]
                trunc = bool(fixed) and (k % n) >= 2 ** 256 and len(fixed) == len(bad)
                # the blinded path can also fail for k%n < 2^256 when k + blinding factor >= 2^256
                trunc = trunc or (bad == ["G*k (blinded fixed-base)"] and n > 2 ** 256)
                v("generator-rawmul-256-step-truncation" if trunc else "large-curve-kG-wrong",
                  "k*G wrong on %s via %s (order has %d bits; Generator.raw_mul walks exactly 256 table entries)" % (nm, bad, n.bit_length())
                  if trunc else "k*G wrong on %s via %s" % (nm, bad),
                  (nm, hex(k)), REPO_HDR + ctor + "k=%d; P=G.Point(G[0],G[1]); print(G.raw_mul(k) == P*k, G*k == P*k)" % k)
        # n*G = infinity via every path, homomorphism with the variable-base path
        for _ in range(2 if quick else 8):
            k1, k2 = rng.randrange(1, n), rng.randrange(1, n)
            t.case(key=(nm, "hom", k1, k2))
            try:
                Gpt = G.Point(*Gxy)
                A, B = Gpt * k1, Gpt * k2
                exp = ref_mul(Gxy, k1 + k2, p, a, n)
                ok = to_ref(A + B) == exp and to_ref(Gpt * (k1 + k2)) == exp and to_ref(A - B) == ref_mul(Gxy, k1 - k2, p, a, n)
            except Exception:  # noqa
                ok = False
            if not ok:
                v("large-curve-homomorphism", "(k1+k2)G != k1G + k2G on %s" % nm, (nm, k1, k2), None)
        # seeded P, variable base
        for _ in range(1 if quick else 4):
            d, k = rng.randrange(1, n), rng.randrange(1, n)
            Pxy = ref_mul(Gxy, d, p, a, n)
            t.case(key=(nm, "kP", d, k))
            try:
                ok = to_ref(k * G.Point(*Pxy)) == ref_mul(Pxy, k, p, a, n) and tup(n * G.Point(*Pxy)) == INF
                if Gn is not None:
                    ok = ok and to_ref(k * Gn.Point(*Pxy)) == ref_mul(Pxy, k, p, a, n)
            except Exception:  # noqa
                ok = False
            if not ok:
                v("large-curve-kP-wrong", "k*P wrong on %s" % nm, (nm, Pxy, k), None)
    t.exhaustive = False
    res = t.result()
    res["violation_counts"] = dict(v.count)
    return res
