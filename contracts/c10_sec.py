"""C10: SEC public-key encoding -- public_pair_to_sec layout, strict sec_to_public_pair (what it accepts, what it returns),
and the round trip for points of the curve.  Stated for secp256k1's field (p concrete: the decoder computes the byte width from
it); points, square roots and curve membership stay abstract (C02's assumed contracts: Generator.points_for_x)."""
from pyvc.api import *
from spec.core import *
from spec.group import *
from pycoin.encoding.sec import public_pair_to_sec, sec_to_public_pair
from pycoin.encoding.exceptions import EncodingError
import contracts.c02_group_assumed  # noqa: F401

P_K1 = 2 ** 256 - 2 ** 32 - 977
N_K1 = 0xFFFFFFFFFFFFFFFFFFFFFFFFFFFFFFFEBAAEDCE6AF48A03BBFD25E8CD0364141
GEN_K1 = AbsGenerator(p=P_K1, n=N_K1)
T = "pycoin.encoding.sec:"


def sec_layout(x, y, compressed):
    if compressed:
        return bytes([2 + y % 2]) + be(x, 32)
    return b"\x04" + be(x, 32) + be(y, 32)


@contract(T + "public_pair_to_sec")
class pair_to_sec:
    props = ["C10"]
    sig = dict(public_pair=Tup(Int(0, 2 ** 256 - 1), Int(0, 2 ** 256 - 1)), compressed=Bool())
    returns = Bytes()

    def ensures_layout(public_pair, compressed, result):
        return (result == sec_layout(public_pair[0], public_pair[1], compressed), len(result) == (33 if compressed else 65))

    canaries = [("2 + (public_pair[1] & 1)", "2 + (public_pair[0] & 1)")]


class PairOrPoint(Builder):
    """what sec_to_public_pair returns: a plain (x, y) tuple (uncompressed form) or a Point of the curve (compressed form)"""

    def symbolic(self, ip, name):
        from pyvc.values import fresh
        if ip.st.branch(fresh(name + "_is_pair", 'bool').e, name + " is a plain pair"):
            return (fresh(name + "_x", 'int'), fresh(name + "_y", 'int'))
        return APoint(finite=True).symbolic(ip, name)

    def sample(self, rng):
        return APoint().sample(rng)


def _x_of(sec):
    return be_int_k(sec[1:33], 32)


def _y_of(sec):
    return be_int_k(sec[33:65], 32)


@contract(T + "sec_to_public_pair")
class sec_to_pair:
    """strict decoding with a generator: 04 || X || Y with both coordinates below p, or 02/03 || X with X below p the
    abscissa of a curve point; everything else is refused"""
    props = ["C10"]
    sig = dict(sec=Bytes(sample_max=66, interesting=[b"", b"\x04" + bytes(64), b"\x02" + bytes(32)]), generator=GEN_K1, strict=Const(True))
    returns = PairOrPoint()

    def _refused(sec, generator, strict):
        p = generator._p
        if len(sec) == 65:
            return not (sec[0] == 4 and _x_of(sec) < p and _y_of(sec) < p)
        if len(sec) == 33:
            return not ((sec[0] == 2 or sec[0] == 3) and _x_of(sec) < p)
        return True

    def _no_point(sec, generator, strict):
        return len(sec) == 33 and (sec[0] == 2 or sec[0] == 3) and _x_of(sec) < generator._p and not has_point_x(_x_of(sec))

    def _is65(sec, generator, strict):
        return len(sec) == 65

    def _is33(sec, generator, strict):
        return len(sec) == 33

    def ensures_uncompressed(sec, generator, strict, result):
        return (result[0] == _x_of(sec), result[1] == _y_of(sec), be(result[0], 32) + be(result[1], 32) == sec[1:65])

    def ensures_compressed(sec, generator, strict, result):
        rx, ry = result[0], result[1]
        return (rx == _x_of(sec), ry % 2 == sec[0] - 2, oncurve(rx, ry), 0 <= ry, ry < generator._p, be(rx, 32) == sec[1:33])

    guards = {'uncompressed': _is65, 'compressed': _is33}
    raises = [(EncodingError, _refused, True), (ValueError, _no_point, True)]
    canaries = [("if sec0 in (b'\\x02', b'\\x03'):", "if sec0 in (b'\\x02', b'\\x03', b'\\x04'):")]


# ---------------------------------------------------------------- round trip
@axiom(sig={}, reason="over a field of odd characteristic a curve y^2 = f(x) has at most two points with a given x, y and p - y, of "
                      "different parity: the ordinate is determined by the abscissa and its parity", lean="lean/Ordinate.lean")
def ordinate_by_parity(x, y1, y2, p):
    return implies(oncurve(x, y1) and oncurve(x, y2) and 0 <= y1 and y1 < p and 0 <= y2 and y2 < p and y1 % 2 == y2 % 2, y1 == y2)


@axiom(sig={}, reason="a point of the curve witnesses that its abscissa is one (has_point_x is 'points_for_x succeeds')")
def point_has_x(x, y):
    return implies(oncurve(x, y), has_point_x(x))


def sec_roundtrip(x, y, compressed, generator):
    return sec_to_public_pair(public_pair_to_sec((x, y), compressed), generator)


@contract("contracts.c10_sec:sec_roundtrip")
class c_sec_roundtrip:
    """decoding the SEC encoding (either form) of a curve point gives the point back"""
    props = ["C10"]
    sig = dict(x=Int(0), y=Int(0), compressed=Bool(), generator=GEN_K1)

    def requires(x, y, compressed, generator):
        return x < generator._p and y < generator._p and oncurve(x, y)

    def hints(x, y, compressed, generator):
        point_has_x(x, y)

    def _is_c(x, y, compressed, generator):
        return compressed

    def _is_u(x, y, compressed, generator):
        return not compressed

    def ensures_same_uncompressed(x, y, compressed, generator, result):
        return (result[0] == x, result[1] == y)

    def ensures_same_compressed(x, y, compressed, generator, result):
        ordinate_by_parity(x, y, result[1], generator._p)
        return (result[0] == x, result[1] == y)

    guards = {'same_uncompressed': _is_u, 'same_compressed': _is_c}

    def samples(rng):
        from pycoin.ecdsa.secp256k1 import secp256k1_generator as g
        pt = g * rng.randrange(1, 2 ** 40)
        return {'x': pt[0], 'y': pt[1], 'compressed': rng.random() < 0.5, 'generator': g}
