"""Number-theory vocabulary for the modular-inverse and scalar-multiplication proofs (C02)."""
import z3
from pyvc.api import spec, implies, lemma, axiom, Int
from pyvc.values import SV, lift
from spec.core import pow2


@spec(rec=True, args=['int', 'int'], ret='int')
def gcd(a, b):
    """Euclid's recursion on non-negative integers"""
    if b <= 0:
        return a
    return gcd(b, a % b)


def _sp_is_prime(ip, n):
    f = z3.Function('is_prime', z3.IntSort(), z3.BoolSort())
    return SV(f(lift(n, 'int').e), 'bool')


@spec(special=_sp_is_prime)
def is_prime(n):
    """primality (uninterpreted on the SMT side; Miller-Rabin natively)"""
    if n < 2:
        return False
    for p in (2, 3, 5, 7, 11, 13, 17, 19, 23, 29, 31, 37):
        if n % p == 0:
            return n == p
    d, s = n - 1, 0
    while d % 2 == 0:
        d //= 2
        s += 1
    for a in (2, 3, 5, 7, 11, 13, 17, 19, 23, 29, 31, 37):
        x = pow(a, d, n)
        if x in (1, n - 1):
            continue
        for _ in range(s - 1):
            x = x * x % n
            if x == n - 1:
                break
        else:
            return False
    return True


@axiom(sig=dict(p=Int(2), a=Int()), reason="a prime is coprime to every residue it does not divide (Mathlib: Nat.Prime.coprime_iff_not_dvd)", lean="lean/ModArith.lean")
def prime_coprime(p, a):
    return implies(is_prime(p) and a % p != 0, gcd(p, a % p) == 1)


@axiom(sig=dict(u=Int(), a=Int(), v=Int(), m=Int(2)), reason="a Bezout identity u*a + v*m = 1 makes u the inverse of a modulo m", lean="lean/ModArith.lean")
def bezout_mod(u, a, v, m):
    return implies(m >= 2 and u * a + v * m == 1, (u * a) % m == 1)


@axiom(sig=dict(m=Int(2), a=Int(), r1=Int(), r2=Int()), reason="a residue has at most one inverse in (0, m)", lean="lean/ModArith.lean")
def inverse_unique(m, a, r1, r2):
    return implies(m >= 2 and 0 < r1 and r1 < m and 0 < r2 and r2 < m and (r1 * a) % m == 1 and (r2 * a) % m == 1, r1 == r2)


@axiom(sig=dict(r=Int(), x=Int(), m=Int(2)), reason="the multiplicand may be reduced modulo m first (Int.mul_emod)", lean="lean/ModArith.lean")
def mod_mul_cong(r, x, m):
    return implies(m >= 2, (r * (x % m)) % m == (r * x) % m)


@axiom(sig=dict(r=Int(), a=Int(), m=Int(2)), reason="adding the modulus to a factor does not change the product modulo m", lean="lean/ModArith.lean")
def mod_shift(r, a, m):
    return implies(m >= 2, ((r + m) * a) % m == (r * a) % m)


# ---------------------------------------------------------------- bits of non-negative integers
@spec(rec=True, args=['int'], ret='int', post=lambda n, result: result >= 0)
def ilog2(n):
    """position of the leading bit (0 for n < 2)"""
    if n < 2:
        return 0
    return 1 + ilog2(n // 2)


@spec(rec=True, args=['int', 'int'], ret='int')
def shr(x, k):
    """x >> k as k-fold halving"""
    if k <= 0:
        return x
    return shr(x, k - 1) // 2


def _sp_bit_and(ip, a, b):
    f = z3.Function('bit_and', z3.IntSort(), z3.IntSort(), z3.IntSort())
    return SV(f(lift(a, 'int').e, lift(b, 'int').e), 'int')


@spec(special=_sp_bit_and)
def bit_and(a, b):
    """Python's & on integers whose mask is not a literal (uninterpreted; its meaning for a power-of-two mask is bit_test)"""
    return a & b


@axiom(sig=dict(x=Int(0), k=Int(0)), reason="x & 2**k is non-zero exactly when bit k of x is set (Mathlib: Nat.and_two_pow, Nat.testBit_eq_decide_div_mod_eq)",
       lean="lean/BitTest.lean")
def bit_test(x, k):
    return implies(x >= 0 and k >= 0, (bit_and(x, pow2(k)) != 0) == (shr(x, k) % 2 == 1))


@lemma(sig=dict(x=Int(0), j=Int(0), t=Int()), induct=lambda x, j, t: j, props=["C02"])
def shr_ge(x, j, t):
    """shr(x, j) >= t  iff  t * 2**j <= x"""
    if j > 0:
        shr_ge(x, j - 1, 2 * t)
    return (shr(x, j) >= t) == (t * pow2(j) <= x)
