"""Executable reference for Bitcoin's *pre-taproot* script consensus rules (property C03).

This is an independent transcription of Bitcoin Core's  src/script/interpreter.cpp  (EvalScript, VerifyScript,
VerifyWitnessProgram for witness version 0, the signature / public-key encoding predicates), src/script/script.h
(CScriptNum, opcodes, limits, IsPushOnly, IsPayToScriptHash, IsWitnessProgram, GetOp, FindAndDelete) and the
transaction signature checker (legacy + BIP143 signature hash, CheckLockTime, CheckSequence, lax DER parsing).
It is pure Python, uses the standard library only and imports NOTHING from pycoin, so it can serve as the oracle
the real pycoin code is compared with.  It is deliberately simple and slow.

Core generation transcribed: the one that matches the test vectors shipped in /repo/tests/btc/data
(script_tests.json with NULLFAIL / WITNESS_PUBKEYTYPE / MINIMALIF, no taproot, no CONST_SCRIPTCODE), i.e. Core
0.13.1 .. 0.15.  One place where later Core versions differ is marked  [VERSION NOTE]  below.

Public API
----------
  eval_script(stack, script, flags, checker, sigversion) -> (ok, err, stack)
  verify_script(script_sig, script_pubkey, witness, flags, checker) -> (ok, err)
  flags: an int made of the F_* bits below (same bit positions as pycoin.satoshi.flags.VERIFY_*), or an
         iterable of flag names ("P2SH", "VERIFY_P2SH", ...); see flags_to_int().
  checker: either an object with  checksig(sig, pubkey, script_code, sigversion) -> bool,
           check_lock_time(n) -> bool, check_sequence(n) -> bool      (Core's BaseSignatureChecker)
           or a bare callable  checksig(sig_bytes, pubkey_bytes, script_code, sigversion) -> bool
           (then CheckLockTime / CheckSequence return False, like BaseSignatureChecker's defaults).
  TransactionChecker(tx, n_in, amount): a complete independent checker (own sighash + own ECDSA).
  err is the name of Core's ScriptError ("OK", "EVAL_FALSE", "SIG_DER", ...).
"""
import hashlib

# ----------------------------------------------------------------------------------------------------------------
# Verification flags.  Bit positions are those of pycoin.satoshi.flags (pycoin copied them from Core's
# SCRIPT_VERIFY_* enum of that time), so an int can be handed to both implementations.
# ----------------------------------------------------------------------------------------------------------------
F_NONE = 0
F_P2SH = 1 << 0
F_STRICTENC = 1 << 1
F_DERSIG = 1 << 2
F_LOW_S = 1 << 3
F_NULLDUMMY = 1 << 4
F_SIGPUSHONLY = 1 << 5
F_MINIMALDATA = 1 << 6
F_DISCOURAGE_UPGRADABLE_NOPS = 1 << 7
F_CLEANSTACK = 1 << 8
F_CHECKLOCKTIMEVERIFY = 1 << 9
F_CHECKSEQUENCEVERIFY = 1 << 10
F_WITNESS = 1 << 11
F_DISCOURAGE_UPGRADABLE_WITNESS_PROGRAM = 1 << 12
F_MINIMALIF = 1 << 13
F_NULLFAIL = 1 << 14
F_WITNESS_PUBKEYTYPE = 1 << 15

FLAG_NAMES = {
    "P2SH": F_P2SH, "STRICTENC": F_STRICTENC, "DERSIG": F_DERSIG, "LOW_S": F_LOW_S, "NULLDUMMY": F_NULLDUMMY,
    "SIGPUSHONLY": F_SIGPUSHONLY, "MINIMALDATA": F_MINIMALDATA,
    "DISCOURAGE_UPGRADABLE_NOPS": F_DISCOURAGE_UPGRADABLE_NOPS, "CLEANSTACK": F_CLEANSTACK,
    "CHECKLOCKTIMEVERIFY": F_CHECKLOCKTIMEVERIFY, "CHECKSEQUENCEVERIFY": F_CHECKSEQUENCEVERIFY,
    "WITNESS": F_WITNESS, "DISCOURAGE_UPGRADABLE_WITNESS_PROGRAM": F_DISCOURAGE_UPGRADABLE_WITNESS_PROGRAM,
    "MINIMALIF": F_MINIMALIF, "NULLFAIL": F_NULLFAIL, "WITNESS_PUBKEYTYPE": F_WITNESS_PUBKEYTYPE,
}
ALL_FLAGS = (1 << 16) - 1

# Core's policy/policy.h  MANDATORY_SCRIPT_VERIFY_FLAGS / STANDARD_SCRIPT_VERIFY_FLAGS of that generation
MANDATORY_FLAGS = F_P2SH
STANDARD_FLAGS = (MANDATORY_FLAGS | F_DERSIG | F_STRICTENC | F_MINIMALDATA | F_NULLDUMMY |
                  F_DISCOURAGE_UPGRADABLE_NOPS | F_CLEANSTACK | F_MINIMALIF | F_NULLFAIL |
                  F_CHECKLOCKTIMEVERIFY | F_CHECKSEQUENCEVERIFY | F_LOW_S | F_WITNESS |
                  F_DISCOURAGE_UPGRADABLE_WITNESS_PROGRAM | F_WITNESS_PUBKEYTYPE)


def flags_to_int(flags):
    """int -> itself;  "P2SH,WITNESS" / iterable of names (with or without VERIFY_ / SCRIPT_VERIFY_ prefix) -> bits."""
    if isinstance(flags, int):
        return flags
    if isinstance(flags, str):
        flags = [f for f in flags.replace(" ", "").split(",") if f and f != "NONE"]
    v = 0
    for name in flags:
        for pre in ("SCRIPT_VERIFY_", "VERIFY_"):
            if name.startswith(pre):
                name = name[len(pre):]
        v |= FLAG_NAMES[name]
    return v


def flags_permitted(flags):
    """Flag sets Core's VerifyScript accepts (its asserts): WITNESS needs P2SH; CLEANSTACK needs P2SH and WITNESS."""
    if flags & F_WITNESS and not flags & F_P2SH:
        return False
    if flags & F_CLEANSTACK and not (flags & F_P2SH and flags & F_WITNESS):
        return False
    return True


def flags_closure(flags):
    """add the flags a given set needs to be permitted (what Core's script_tests.cpp DoTest does for CLEANSTACK)"""
    if flags & F_CLEANSTACK:
        flags |= F_P2SH | F_WITNESS
    if flags & F_WITNESS:
        flags |= F_P2SH
    return flags


# ----------------------------------------------------------------------------------------------------------------
# Limits (script.h) and sig versions
# ----------------------------------------------------------------------------------------------------------------
MAX_SCRIPT_ELEMENT_SIZE = 520     # bytes of one pushed / witness stack element
MAX_OPS_PER_SCRIPT = 201          # non-push opcodes (opcode > OP_16), executed or not, + keys of CHECKMULTISIG
MAX_PUBKEYS_PER_MULTISIG = 20
MAX_SCRIPT_SIZE = 10000           # applies to every script handed to EvalScript, including the P2WSH witness script
MAX_STACK_SIZE = 1000             # stack + altstack, checked after every opcode
LOCKTIME_THRESHOLD = 500000000
SEQUENCE_FINAL = 0xFFFFFFFF
SEQUENCE_LOCKTIME_DISABLE_FLAG = 1 << 31
SEQUENCE_LOCKTIME_TYPE_FLAG = 1 << 22
SEQUENCE_LOCKTIME_MASK = 0x0000FFFF
WITNESS_V0_SCRIPTHASH_SIZE = 32
WITNESS_V0_KEYHASH_SIZE = 20

SIGVERSION_BASE = 0
SIGVERSION_WITNESS_V0 = 1

SIGHASH_ALL = 1
SIGHASH_NONE = 2
SIGHASH_SINGLE = 3
SIGHASH_ANYONECANPAY = 0x80

# ----------------------------------------------------------------------------------------------------------------
# Opcodes (script.h)
# ----------------------------------------------------------------------------------------------------------------
OP_0 = 0x00
OP_PUSHDATA1 = 0x4c
OP_PUSHDATA2 = 0x4d
OP_PUSHDATA4 = 0x4e
OP_1NEGATE = 0x4f
OP_RESERVED = 0x50
OP_1 = 0x51
OP_16 = 0x60
OP_NOP = 0x61
OP_VER = 0x62
OP_IF = 0x63
OP_NOTIF = 0x64
OP_VERIF = 0x65
OP_VERNOTIF = 0x66
OP_ELSE = 0x67
OP_ENDIF = 0x68
OP_VERIFY = 0x69
OP_RETURN = 0x6a
OP_TOALTSTACK = 0x6b
OP_FROMALTSTACK = 0x6c
OP_2DROP = 0x6d
OP_2DUP = 0x6e
OP_3DUP = 0x6f
OP_2OVER = 0x70
OP_2ROT = 0x71
OP_2SWAP = 0x72
OP_IFDUP = 0x73
OP_DEPTH = 0x74
OP_DROP = 0x75
OP_DUP = 0x76
OP_NIP = 0x77
OP_OVER = 0x78
OP_PICK = 0x79
OP_ROLL = 0x7a
OP_ROT = 0x7b
OP_SWAP = 0x7c
OP_TUCK = 0x7d
OP_CAT = 0x7e
OP_SUBSTR = 0x7f
OP_LEFT = 0x80
OP_RIGHT = 0x81
OP_SIZE = 0x82
OP_INVERT = 0x83
OP_AND = 0x84
OP_OR = 0x85
OP_XOR = 0x86
OP_EQUAL = 0x87
OP_EQUALVERIFY = 0x88
OP_RESERVED1 = 0x89
OP_RESERVED2 = 0x8a
OP_1ADD = 0x8b
OP_1SUB = 0x8c
OP_2MUL = 0x8d
OP_2DIV = 0x8e
OP_NEGATE = 0x8f
OP_ABS = 0x90
OP_NOT = 0x91
OP_0NOTEQUAL = 0x92
OP_ADD = 0x93
OP_SUB = 0x94
OP_MUL = 0x95
OP_DIV = 0x96
OP_MOD = 0x97
OP_LSHIFT = 0x98
OP_RSHIFT = 0x99
OP_BOOLAND = 0x9a
OP_BOOLOR = 0x9b
OP_NUMEQUAL = 0x9c
OP_NUMEQUALVERIFY = 0x9d
OP_NUMNOTEQUAL = 0x9e
OP_LESSTHAN = 0x9f
OP_GREATERTHAN = 0xa0
OP_LESSTHANOREQUAL = 0xa1
OP_GREATERTHANOREQUAL = 0xa2
OP_MIN = 0xa3
OP_MAX = 0xa4
OP_WITHIN = 0xa5
OP_RIPEMD160 = 0xa6
OP_SHA1 = 0xa7
OP_SHA256 = 0xa8
OP_HASH160 = 0xa9
OP_HASH256 = 0xaa
OP_CODESEPARATOR = 0xab
OP_CHECKSIG = 0xac
OP_CHECKSIGVERIFY = 0xad
OP_CHECKMULTISIG = 0xae
OP_CHECKMULTISIGVERIFY = 0xaf
OP_NOP1 = 0xb0
OP_CHECKLOCKTIMEVERIFY = 0xb1     # = OP_NOP2
OP_CHECKSEQUENCEVERIFY = 0xb2     # = OP_NOP3
OP_NOP4 = 0xb3
OP_NOP10 = 0xb9
# 0xba .. 0xff are not assigned: BAD_OPCODE when executed, skipped (but counted) when not executed.

# Disabled opcodes: fail the script wherever they occur, EVEN IN AN UNEXECUTED BRANCH (CVE-2010-5137).
DISABLED_OPCODES = frozenset([OP_CAT, OP_SUBSTR, OP_LEFT, OP_RIGHT, OP_INVERT, OP_AND, OP_OR, OP_XOR, OP_2MUL,
                              OP_2DIV, OP_MUL, OP_DIV, OP_MOD, OP_LSHIFT, OP_RSHIFT])

OPCODE_NAMES = dict((v, k) for k, v in list(globals().items()) if k.startswith("OP_") and isinstance(v, int))
OPCODE_NAMES.update({0xb1: "OP_CHECKLOCKTIMEVERIFY", 0xb2: "OP_CHECKSEQUENCEVERIFY"})
for _i in range(2, 16):
    OPCODE_NAMES[OP_1 + _i - 1] = "OP_%d" % _i
for _i, _n in ((0xb4, 5), (0xb5, 6), (0xb6, 7), (0xb7, 8), (0xb8, 9)):
    OPCODE_NAMES[_i] = "OP_NOP%d" % _n


class ScriptNumError(Exception):
    """Core's scriptnum_error; caught by EvalScript's catch(...) -> SCRIPT_ERR_UNKNOWN_ERROR"""


# ----------------------------------------------------------------------------------------------------------------
# CScriptNum
# ----------------------------------------------------------------------------------------------------------------
def scriptnum_decode(vch, require_minimal, max_size=4):
    """CScriptNum(vch, fRequireMinimal, nMaxNumSize): little-endian sign-magnitude.  Operands are limited to
    max_size bytes (4 by default, 5 for CLTV/CSV) -- NOT limited in value: results may overflow to 5 bytes but
    can then no longer be used as operands."""
    if len(vch) > max_size:
        raise ScriptNumError("script number overflow")
    if require_minimal and len(vch) > 0:
        # If the most-significant byte - excluding the sign bit - is zero then the encoding is not minimal
        # (this also rejects negative zero 0x80) ...
        if (vch[-1] & 0x7f) == 0:
            # ... unless there is more than one byte and the top bit of the second-most-significant byte is set
            # (it would otherwise conflict with the sign bit): +-255 encode to ff00 / ff80.
            if len(vch) <= 1 or (vch[-2] & 0x80) == 0:
                raise ScriptNumError("non-minimally encoded script number")
    if len(vch) == 0:
        return 0
    result = int.from_bytes(vch, "little")
    if vch[-1] & 0x80:
        return -(result & ~(0x80 << (8 * (len(vch) - 1))))
    return result


def scriptnum_encode(value):
    """CScriptNum::serialize"""
    if value == 0:
        return b""
    neg = value < 0
    absvalue = -value if neg else value
    result = bytearray()
    while absvalue:
        result.append(absvalue & 0xff)
        absvalue >>= 8
    if result[-1] & 0x80:
        result.append(0x80 if neg else 0)
    elif neg:
        result[-1] |= 0x80
    return bytes(result)


def scriptnum_getint(v):
    """CScriptNum::getint: clamp to the int range"""
    return max(-(1 << 31), min((1 << 31) - 1, v))


def cast_to_bool(vch):
    """CastToBool: false iff all bytes are zero, or all are zero except a final 0x80 (negative zero)"""
    for i in range(len(vch)):
        if vch[i] != 0:
            if i == len(vch) - 1 and vch[i] == 0x80:
                return False
            return True
    return False


VCH_FALSE = b""
VCH_TRUE = b"\x01"


# ----------------------------------------------------------------------------------------------------------------
# Script parsing helpers (CScript::GetOp, IsPushOnly, IsPayToScriptHash, IsWitnessProgram, FindAndDelete)
# ----------------------------------------------------------------------------------------------------------------
def get_op(script, pc):
    """GetScriptOp.  Returns (ok, opcode, push_data_or_None, new_pc).  A push whose length bytes or payload run past
    the end of the script makes the WHOLE read fail (ok False)."""
    if pc >= len(script):
        return False, 0xff, None, pc
    opcode = script[pc]
    pc += 1
    data = None
    if opcode <= OP_PUSHDATA4:
        if opcode < OP_PUSHDATA1:
            n = opcode
        elif opcode == OP_PUSHDATA1:
            if len(script) - pc < 1:
                return False, opcode, None, pc
            n = script[pc]
            pc += 1
        elif opcode == OP_PUSHDATA2:
            if len(script) - pc < 2:
                return False, opcode, None, pc
            n = int.from_bytes(script[pc:pc + 2], "little")
            pc += 2
        else:
            if len(script) - pc < 4:
                return False, opcode, None, pc
            n = int.from_bytes(script[pc:pc + 4], "little")
            pc += 4
        if len(script) - pc < n:
            return False, opcode, None, pc
        data = bytes(script[pc:pc + n])
        pc += n
    return True, opcode, data, pc


def push_data(data):
    """CScript() << vector: the size-based push used by Core when it builds scripts (never OP_1..OP_16)"""
    n = len(data)
    if n < OP_PUSHDATA1:
        return bytes([n]) + data
    if n <= 0xff:
        return bytes([OP_PUSHDATA1, n]) + data
    if n <= 0xffff:
        return bytes([OP_PUSHDATA2]) + n.to_bytes(2, "little") + data
    return bytes([OP_PUSHDATA4]) + n.to_bytes(4, "little") + data


def push_int(n):
    """CScript() << int64"""
    if n == -1 or 1 <= n <= 16:
        return bytes([n + OP_1 - 1])
    if n == 0:
        return bytes([OP_0])
    return push_data(scriptnum_encode(n))


def is_push_only(script):
    """CScript::IsPushOnly.  Note: OP_RESERVED (0x50) counts as a push here; an unparsable push does not."""
    pc = 0
    while pc < len(script):
        ok, opcode, _, pc = get_op(script, pc)
        if not ok:
            return False
        if opcode > OP_16:
            return False
    return True


def is_pay_to_script_hash(script):
    """CScript::IsPayToScriptHash: exactly  OP_HASH160 0x14 <20 bytes> OP_EQUAL"""
    return len(script) == 23 and script[0] == OP_HASH160 and script[1] == 0x14 and script[22] == OP_EQUAL


def is_witness_program(script):
    """CScript::IsWitnessProgram -> (version, program) or None: a version opcode (OP_0, OP_1..OP_16) followed by ONE
    direct push of 2..40 bytes and nothing else"""
    if len(script) < 4 or len(script) > 42:
        return None
    if script[0] != OP_0 and (script[0] < OP_1 or script[0] > OP_16):
        return None
    if script[1] + 2 == len(script):
        version = 0 if script[0] == OP_0 else script[0] - (OP_1 - 1)
        return version, bytes(script[2:])
    return None


def find_and_delete(script, b):
    """CScript::FindAndDelete: remove every occurrence of the byte pattern b that starts at an opcode boundary.
    (After a match the scan continues at the byte after the match, which may again match.)  If the script stops
    parsing, the remainder is copied unchanged."""
    if len(b) == 0:
        return script, 0
    result = bytearray()
    n_found = 0
    pc = 0
    pc2 = 0
    end = len(script)
    while True:
        result += script[pc2:pc]
        while end - pc >= len(b) and script[pc:pc + len(b)] == b:
            pc += len(b)
            n_found += 1
        pc2 = pc
        if pc >= end:
            break
        ok, _, _, pc = get_op(script, pc)
        if not ok:
            break
    if n_found > 0:
        result += script[pc2:end]
        return bytes(result), n_found
    return script, 0


# ----------------------------------------------------------------------------------------------------------------
# Signature / public key encoding predicates
# ----------------------------------------------------------------------------------------------------------------
SECP256K1_N = 0xFFFFFFFFFFFFFFFFFFFFFFFFFFFFFFFEBAAEDCE6AF48A03BBFD25E8CD0364141
SECP256K1_P = 2 ** 256 - 2 ** 32 - 977


def is_valid_signature_encoding(sig):
    """IsValidSignatureEncoding (BIP66): 0x30 [total-length] 0x02 [R-length] [R] 0x02 [S-length] [S] [sighash]"""
    if len(sig) < 9:
        return False
    if len(sig) > 73:
        return False
    if sig[0] != 0x30:
        return False
    if sig[1] != len(sig) - 3:
        return False
    len_r = sig[3]
    if 5 + len_r >= len(sig):
        return False
    len_s = sig[5 + len_r]
    if len_r + len_s + 7 != len(sig):
        return False
    if sig[2] != 0x02:
        return False
    if len_r == 0:
        return False
    if sig[4] & 0x80:
        return False
    if len_r > 1 and sig[4] == 0x00 and not (sig[5] & 0x80):
        return False
    if sig[len_r + 4] != 0x02:
        return False
    if len_s == 0:
        return False
    if sig[len_r + 6] & 0x80:
        return False
    if len_s > 1 and sig[len_r + 6] == 0x00 and not (sig[len_r + 7] & 0x80):
        return False
    return True


def parse_der_lax(sig):
    """pubkey.cpp ecdsa_signature_parse_der_lax (sig WITHOUT the hash-type byte) -> (r, s) or None.
    Accepts what OpenSSL used to accept.  If r or s does not fit a scalar (more than 32 significant bytes or
    >= group order) the result is the (invalid) signature (0, 0) -- parsing still 'succeeds'."""
    pos = 0
    n = len(sig)
    # sequence tag
    if pos == n or sig[pos] != 0x30:
        return None
    pos += 1
    # sequence length bytes (value ignored)
    if pos == n:
        return None
    lenbyte = sig[pos]
    pos += 1
    if lenbyte & 0x80:
        lenbyte -= 0x80
        if lenbyte > n - pos:
            return None
        pos += lenbyte
    out = []
    for _ in range(2):
        # integer tag
        if pos == n or sig[pos] != 0x02:
            return None
        pos += 1
        # integer length
        if pos == n:
            return None
        lenbyte = sig[pos]
        pos += 1
        if lenbyte & 0x80:
            lenbyte -= 0x80
            if lenbyte > n - pos:
                return None
            while lenbyte > 0 and sig[pos] == 0:
                pos += 1
                lenbyte -= 1
            if lenbyte >= 8:          # sizeof(size_t)
                return None
            ilen = 0
            while lenbyte > 0:
                ilen = (ilen << 8) + sig[pos]
                pos += 1
                lenbyte -= 1
        else:
            ilen = lenbyte
        if ilen > n - pos:
            return None
        out.append((pos, ilen))
        pos += ilen
    overflow = False
    vals = []
    for ipos, ilen in out:
        while ilen > 0 and sig[ipos] == 0:      # ignore leading zeroes
            ipos += 1
            ilen -= 1
        if ilen > 32:
            overflow = True
            vals.append(0)
        else:
            vals.append(int.from_bytes(sig[ipos:ipos + ilen], "big"))
    if not overflow and (vals[0] >= SECP256K1_N or vals[1] >= SECP256K1_N):
        overflow = True
    if overflow:
        return 0, 0
    return vals[0], vals[1]


def is_low_der_signature(sig):
    """IsLowDERSignature -> (ok, err).  'Low' means S <= order/2 (the GROUP ORDER n, not the field prime).
    CPubKey::CheckLowS parses laxly; an overflowing S (or R) turns into the signature (0,0), which is 'low'."""
    if not is_valid_signature_encoding(sig):
        return False, "SIG_DER"
    rs = parse_der_lax(sig[:-1])
    if rs is None:
        return False, "SIG_HIGH_S"
    if rs[1] > SECP256K1_N // 2:
        return False, "SIG_HIGH_S"
    return True, "OK"


def is_defined_hashtype_signature(sig):
    """IsDefinedHashtypeSignature"""
    if len(sig) == 0:
        return False
    hash_type = sig[-1] & ~SIGHASH_ANYONECANPAY
    if hash_type < SIGHASH_ALL or hash_type > SIGHASH_SINGLE:
        return False
    return True


def check_signature_encoding(sig, flags):
    """CheckSignatureEncoding -> (ok, err)"""
    # Empty signature. Not strictly DER encoded, but allowed to provide a compact way to provide an invalid
    # signature for use with CHECK(MULTI)SIG
    if len(sig) == 0:
        return True, "OK"
    if flags & (F_DERSIG | F_LOW_S | F_STRICTENC) and not is_valid_signature_encoding(sig):
        return False, "SIG_DER"
    if flags & F_LOW_S:
        ok, err = is_low_der_signature(sig)
        if not ok:
            return False, err
    if flags & F_STRICTENC and not is_defined_hashtype_signature(sig):
        return False, "SIG_HASHTYPE"
    return True, "OK"


def is_compressed_or_uncompressed_pubkey(pubkey):
    """IsCompressedOrUncompressedPubKey (hybrid 0x06/0x07 keys are rejected)"""
    if len(pubkey) < 33:
        return False
    if pubkey[0] == 0x04:
        if len(pubkey) != 65:
            return False
    elif pubkey[0] == 0x02 or pubkey[0] == 0x03:
        if len(pubkey) != 33:
            return False
    else:
        return False
    return True


def is_compressed_pubkey(pubkey):
    """IsCompressedPubKey"""
    if len(pubkey) != 33:
        return False
    if pubkey[0] != 0x02 and pubkey[0] != 0x03:
        return False
    return True


def check_pubkey_encoding(pubkey, flags, sigversion):
    """CheckPubKeyEncoding -> (ok, err).  NB: evaluated for every (signature, key) pair that is tried, also when
    the signature is empty."""
    if flags & F_STRICTENC and not is_compressed_or_uncompressed_pubkey(pubkey):
        return False, "PUBKEYTYPE"
    # Only compressed keys are accepted in segwit
    if flags & F_WITNESS_PUBKEYTYPE and sigversion == SIGVERSION_WITNESS_V0 and not is_compressed_pubkey(pubkey):
        return False, "WITNESS_PUBKEYTYPE"
    return True, "OK"


def check_minimal_push(data, opcode):
    """CheckMinimalPush (for 0 <= opcode <= OP_PUSHDATA4)"""
    if len(data) == 0:
        return opcode == OP_0                     # should have used OP_0
    if len(data) == 1 and 1 <= data[0] <= 16:
        return False                              # should have used OP_1 .. OP_16
    if len(data) == 1 and data[0] == 0x81:
        return False                              # should have used OP_1NEGATE
    if len(data) <= 75:
        return opcode == len(data)                # direct push
    if len(data) <= 255:
        return opcode == OP_PUSHDATA1
    if len(data) <= 65535:
        return opcode == OP_PUSHDATA2
    return True


# ----------------------------------------------------------------------------------------------------------------
# Checker plumbing
# ----------------------------------------------------------------------------------------------------------------
class BaseChecker(object):
    """Core's BaseSignatureChecker: everything fails"""

    def checksig(self, sig, pubkey, script_code, sigversion):
        return False

    def check_lock_time(self, n):
        return False

    def check_sequence(self, n):
        return False


class CallbackChecker(BaseChecker):
    """wraps a bare  checksig(sig, pubkey, script_code, sigversion) -> bool  callable"""

    def __init__(self, f, check_lock_time=None, check_sequence=None):
        self.f = f
        self._clt = check_lock_time
        self._cs = check_sequence

    def checksig(self, sig, pubkey, script_code, sigversion):
        return bool(self.f(sig, pubkey, script_code, sigversion))

    def check_lock_time(self, n):
        return bool(self._clt(n)) if self._clt else False

    def check_sequence(self, n):
        return bool(self._cs(n)) if self._cs else False


def _as_checker(checker):
    if checker is None:
        return BaseChecker()
    if hasattr(checker, "checksig"):
        return checker
    return CallbackChecker(checker)


class _Fail(Exception):
    """internal: 'return set_error(serror, X)' from inside the opcode switch"""

    def __init__(self, err):
        Exception.__init__(self, err)
        self.err = err


# ----------------------------------------------------------------------------------------------------------------
# EvalScript
# ----------------------------------------------------------------------------------------------------------------
def eval_script(stack, script, flags, checker, sigversion=SIGVERSION_BASE):
    """EvalScript.  `stack` (list of bytes) is the initial stack and is not modified; returns (ok, err, stack') where
    stack' is the final stack (on failure: the stack at the point of failure, informative only)."""
    flags = flags_to_int(flags)
    checker = _as_checker(checker)
    stack = [bytes(x) for x in stack]
    script = bytes(script)
    try:
        _eval_script(stack, script, flags, checker, sigversion)
    except _Fail as f:
        return False, f.err, stack
    except ScriptNumError:
        # Core: catch (...) { return set_error(serror, SCRIPT_ERR_UNKNOWN_ERROR); }
        return False, "UNKNOWN_ERROR", stack
    return True, "OK", stack


def _eval_script(stack, script, flags, checker, sigversion):
    altstack = []
    vf_exec = []                # one bool per open OP_IF/OP_NOTIF
    pc = 0
    pend = len(script)
    pbegincodehash = 0          # start of the script code that signatures commit to (after the last executed
    #                             OP_CODESEPARATOR)
    n_op_count = 0
    require_minimal = bool(flags & F_MINIMALDATA)

    if len(script) > MAX_SCRIPT_SIZE:
        raise _Fail("SCRIPT_SIZE")

    def need(n):
        if len(stack) < n:
            raise _Fail("INVALID_STACK_OPERATION")

    def num(vch, max_size=4):
        return scriptnum_decode(vch, require_minimal, max_size)

    while pc < pend:
        f_exec = False not in vf_exec

        # ---- read instruction -------------------------------------------------------------------------------
        ok, opcode, push_value, pc = get_op(script, pc)
        if not ok:
            raise _Fail("BAD_OPCODE")
        if push_value is not None and len(push_value) > MAX_SCRIPT_ELEMENT_SIZE:
            raise _Fail("PUSH_SIZE")                       # also in unexecuted branches

        # Note how OP_RESERVED does not count towards the opcode limit (it is <= OP_16).
        if opcode > OP_16:
            n_op_count += 1
            if n_op_count > MAX_OPS_PER_SCRIPT:
                raise _Fail("OP_COUNT")                    # counted whether executed or not

        if opcode in DISABLED_OPCODES:
            raise _Fail("DISABLED_OPCODE")                 # even in an unexecuted branch

        if f_exec and 0 <= opcode <= OP_PUSHDATA4:
            if require_minimal and not check_minimal_push(push_value, opcode):
                raise _Fail("MINIMALDATA")                 # only for pushes that are executed
            stack.append(push_value)
        elif f_exec or (OP_IF <= opcode <= OP_ENDIF):
            # OP_IF, OP_NOTIF, OP_VERIF, OP_VERNOTIF, OP_ELSE, OP_ENDIF are processed even when not executing;
            # OP_VERIF / OP_VERNOTIF have no case below, hence they are BAD_OPCODE even in an unexecuted branch.

            # ---- push value ---------------------------------------------------------------------------------
            if opcode == OP_1NEGATE or OP_1 <= opcode <= OP_16:
                stack.append(scriptnum_encode(opcode - (OP_1 - 1)))

            # ---- control ------------------------------------------------------------------------------------
            elif opcode == OP_NOP:
                pass

            elif opcode == OP_CHECKLOCKTIMEVERIFY:
                if not flags & F_CHECKLOCKTIMEVERIFY:
                    # not enabled; treat as a NOP2
                    # [VERSION NOTE] Core <= 0.15 (the generation of the shipped vectors, see script_tests.json
                    # '["1", "CHECKLOCKTIMEVERIFY", "P2SH,DISCOURAGE_UPGRADABLE_NOPS", "DISCOURAGE_UPGRADABLE_NOPS"]')
                    # discourages it like the other NOPs; Core >= 0.16 simply breaks here.  The flag combination
                    # (DISCOURAGE_UPGRADABLE_NOPS without CLTV/CSV) is not used by any Core node policy.
                    if flags & F_DISCOURAGE_UPGRADABLE_NOPS:
                        raise _Fail("DISCOURAGE_UPGRADABLE_NOPS")
                else:
                    need(1)
                    # 5-byte operand: nLockTime is a uint32, a 4-byte CScriptNum only reaches 2^31-1.
                    n_lock_time = num(stack[-1], 5)
                    if n_lock_time < 0:
                        raise _Fail("NEGATIVE_LOCKTIME")
                    if not checker.check_lock_time(n_lock_time):
                        raise _Fail("UNSATISFIED_LOCKTIME")
                    # the operand STAYS on the stack, unmodified

            elif opcode == OP_CHECKSEQUENCEVERIFY:
                if not flags & F_CHECKSEQUENCEVERIFY:
                    # not enabled; treat as a NOP3        [VERSION NOTE] as for CLTV
                    if flags & F_DISCOURAGE_UPGRADABLE_NOPS:
                        raise _Fail("DISCOURAGE_UPGRADABLE_NOPS")
                else:
                    need(1)
                    n_sequence = num(stack[-1], 5)
                    if n_sequence < 0:
                        raise _Fail("NEGATIVE_LOCKTIME")
                    # if the operand has the disable flag set, CHECKSEQUENCEVERIFY behaves as a NOP
                    if (n_sequence & SEQUENCE_LOCKTIME_DISABLE_FLAG) == 0:
                        if not checker.check_sequence(n_sequence):
                            raise _Fail("UNSATISFIED_LOCKTIME")

            elif opcode == OP_NOP1 or OP_NOP4 <= opcode <= OP_NOP10:
                if flags & F_DISCOURAGE_UPGRADABLE_NOPS:
                    raise _Fail("DISCOURAGE_UPGRADABLE_NOPS")

            elif opcode == OP_IF or opcode == OP_NOTIF:
                # <expression> if [statements] [else [statements]] endif
                f_value = False
                if f_exec:
                    if len(stack) < 1:
                        raise _Fail("UNBALANCED_CONDITIONAL")
                    vch = stack[-1]
                    if sigversion == SIGVERSION_WITNESS_V0 and flags & F_MINIMALIF:
                        if len(vch) > 1:
                            raise _Fail("MINIMALIF")
                        if len(vch) == 1 and vch[0] != 1:
                            raise _Fail("MINIMALIF")
                    f_value = cast_to_bool(vch)
                    if opcode == OP_NOTIF:
                        f_value = not f_value
                    stack.pop()
                vf_exec.append(f_value)

            elif opcode == OP_ELSE:
                if not vf_exec:
                    raise _Fail("UNBALANCED_CONDITIONAL")
                vf_exec[-1] = not vf_exec[-1]

            elif opcode == OP_ENDIF:
                if not vf_exec:
                    raise _Fail("UNBALANCED_CONDITIONAL")
                vf_exec.pop()

            elif opcode == OP_VERIFY:
                # (true -- ) or (false -- false) and return
                need(1)
                if cast_to_bool(stack[-1]):
                    stack.pop()
                else:
                    raise _Fail("VERIFY")

            elif opcode == OP_RETURN:
                raise _Fail("OP_RETURN")

            # ---- stack ops ----------------------------------------------------------------------------------
            elif opcode == OP_TOALTSTACK:
                need(1)
                altstack.append(stack.pop())

            elif opcode == OP_FROMALTSTACK:
                if len(altstack) < 1:
                    raise _Fail("INVALID_ALTSTACK_OPERATION")
                stack.append(altstack.pop())

            elif opcode == OP_2DROP:
                # (x1 x2 -- )
                need(2)
                stack.pop()
                stack.pop()

            elif opcode == OP_2DUP:
                # (x1 x2 -- x1 x2 x1 x2)
                need(2)
                stack.extend([stack[-2], stack[-1]])

            elif opcode == OP_3DUP:
                # (x1 x2 x3 -- x1 x2 x3 x1 x2 x3)
                need(3)
                stack.extend([stack[-3], stack[-2], stack[-1]])

            elif opcode == OP_2OVER:
                # (x1 x2 x3 x4 -- x1 x2 x3 x4 x1 x2)
                need(4)
                stack.extend([stack[-4], stack[-3]])

            elif opcode == OP_2ROT:
                # (x1 x2 x3 x4 x5 x6 -- x3 x4 x5 x6 x1 x2)
                need(6)
                x1, x2 = stack[-6], stack[-5]
                del stack[-6:-4]
                stack.extend([x1, x2])

            elif opcode == OP_2SWAP:
                # (x1 x2 x3 x4 -- x3 x4 x1 x2)
                need(4)
                stack[-4], stack[-3], stack[-2], stack[-1] = stack[-2], stack[-1], stack[-4], stack[-3]

            elif opcode == OP_IFDUP:
                # (x - 0 | x x): duplicate iff CastToBool(x) -- b"\x00", b"\x80" ... are false and NOT duplicated
                need(1)
                if cast_to_bool(stack[-1]):
                    stack.append(stack[-1])

            elif opcode == OP_DEPTH:
                # -- stacksize
                stack.append(scriptnum_encode(len(stack)))

            elif opcode == OP_DROP:
                need(1)
                stack.pop()

            elif opcode == OP_DUP:
                need(1)
                stack.append(stack[-1])

            elif opcode == OP_NIP:
                # (x1 x2 -- x2)
                need(2)
                del stack[-2]

            elif opcode == OP_OVER:
                # (x1 x2 -- x1 x2 x1)
                need(2)
                stack.append(stack[-2])

            elif opcode == OP_PICK or opcode == OP_ROLL:
                # (xn ... x2 x1 x0 n - xn ... x2 x1 x0 xn)
                # (xn ... x2 x1 x0 n - ... x2 x1 x0 xn)
                need(2)
                n = scriptnum_getint(num(stack[-1]))            # 4-byte operand
                stack.pop()
                if n < 0 or n >= len(stack):
                    raise _Fail("INVALID_STACK_OPERATION")
                vch = stack[-n - 1]
                if opcode == OP_ROLL:
                    del stack[-n - 1]
                stack.append(vch)

            elif opcode == OP_ROT:
                # (x1 x2 x3 -- x2 x3 x1)
                need(3)
                stack.append(stack.pop(-3))

            elif opcode == OP_SWAP:
                # (x1 x2 -- x2 x1)
                need(2)
                stack[-2], stack[-1] = stack[-1], stack[-2]

            elif opcode == OP_TUCK:
                # (x1 x2 -- x2 x1 x2)
                need(2)
                stack.insert(len(stack) - 2, stack[-1])

            elif opcode == OP_SIZE:
                # (in -- in size)
                need(1)
                stack.append(scriptnum_encode(len(stack[-1])))

            # ---- bitwise logic ------------------------------------------------------------------------------
            elif opcode == OP_EQUAL or opcode == OP_EQUALVERIFY:
                # (x1 x2 - bool): byte-wise comparison
                need(2)
                f_equal = stack[-2] == stack[-1]
                stack.pop()
                stack.pop()
                stack.append(VCH_TRUE if f_equal else VCH_FALSE)
                if opcode == OP_EQUALVERIFY:
                    if f_equal:
                        stack.pop()
                    else:
                        raise _Fail("EQUALVERIFY")

            # ---- numeric ------------------------------------------------------------------------------------
            elif opcode in (OP_1ADD, OP_1SUB, OP_NEGATE, OP_ABS, OP_NOT, OP_0NOTEQUAL):
                # (in -- out), operand at most 4 bytes
                need(1)
                bn = num(stack[-1])
                if opcode == OP_1ADD:
                    bn += 1
                elif opcode == OP_1SUB:
                    bn -= 1
                elif opcode == OP_NEGATE:
                    bn = -bn
                elif opcode == OP_ABS:
                    bn = abs(bn)
                elif opcode == OP_NOT:
                    bn = int(bn == 0)
                elif opcode == OP_0NOTEQUAL:
                    bn = int(bn != 0)
                stack.pop()
                stack.append(scriptnum_encode(bn))

            elif opcode in (OP_ADD, OP_SUB, OP_BOOLAND, OP_BOOLOR, OP_NUMEQUAL, OP_NUMEQUALVERIFY, OP_NUMNOTEQUAL,
                            OP_LESSTHAN, OP_GREATERTHAN, OP_LESSTHANOREQUAL, OP_GREATERTHANOREQUAL, OP_MIN, OP_MAX):
                # (x1 x2 -- out), operands at most 4 bytes each
                need(2)
                bn1 = num(stack[-2])
                bn2 = num(stack[-1])
                if opcode == OP_ADD:
                    bn = bn1 + bn2
                elif opcode == OP_SUB:
                    bn = bn1 - bn2
                elif opcode == OP_BOOLAND:
                    bn = int(bn1 != 0 and bn2 != 0)
                elif opcode == OP_BOOLOR:
                    bn = int(bn1 != 0 or bn2 != 0)
                elif opcode == OP_NUMEQUAL or opcode == OP_NUMEQUALVERIFY:
                    bn = int(bn1 == bn2)
                elif opcode == OP_NUMNOTEQUAL:
                    bn = int(bn1 != bn2)
                elif opcode == OP_LESSTHAN:
                    bn = int(bn1 < bn2)
                elif opcode == OP_GREATERTHAN:
                    bn = int(bn1 > bn2)
                elif opcode == OP_LESSTHANOREQUAL:
                    bn = int(bn1 <= bn2)
                elif opcode == OP_GREATERTHANOREQUAL:
                    bn = int(bn1 >= bn2)
                elif opcode == OP_MIN:
                    bn = bn1 if bn1 < bn2 else bn2
                else:
                    bn = bn1 if bn1 > bn2 else bn2
                stack.pop()
                stack.pop()
                stack.append(scriptnum_encode(bn))
                if opcode == OP_NUMEQUALVERIFY:
                    if cast_to_bool(stack[-1]):
                        stack.pop()
                    else:
                        raise _Fail("NUMEQUALVERIFY")

            elif opcode == OP_WITHIN:
                # (x min max -- out), all three operands at most 4 bytes
                need(3)
                bn1 = num(stack[-3])
                bn2 = num(stack[-2])
                bn3 = num(stack[-1])
                f_value = bn2 <= bn1 < bn3
                stack.pop()
                stack.pop()
                stack.pop()
                stack.append(VCH_TRUE if f_value else VCH_FALSE)

            # ---- crypto -------------------------------------------------------------------------------------
            elif opcode in (OP_RIPEMD160, OP_SHA1, OP_SHA256, OP_HASH160, OP_HASH256):
                # (in -- hash)
                need(1)
                vch = stack.pop()
                if opcode == OP_RIPEMD160:
                    h = ripemd160(vch)
                elif opcode == OP_SHA1:
                    h = hashlib.sha1(vch).digest()
                elif opcode == OP_SHA256:
                    h = hashlib.sha256(vch).digest()
                elif opcode == OP_HASH160:
                    h = ripemd160(hashlib.sha256(vch).digest())
                else:
                    h = hashlib.sha256(hashlib.sha256(vch).digest()).digest()
                stack.append(h)

            elif opcode == OP_CODESEPARATOR:
                # Hash starts after the code separator (pc already points behind it); only when executed
                pbegincodehash = pc

            elif opcode == OP_CHECKSIG or opcode == OP_CHECKSIGVERIFY:
                # (sig pubkey -- bool)
                need(2)
                vch_sig = stack[-2]
                vch_pubkey = stack[-1]
                # Subset of script starting at the most recent codeseparator
                script_code = script[pbegincodehash:pend]
                # Drop the signature in pre-segwit scripts but not segwit scripts
                if sigversion == SIGVERSION_BASE:
                    script_code, _ = find_and_delete(script_code, push_data(vch_sig))
                ok, err = check_signature_encoding(vch_sig, flags)
                if not ok:
                    raise _Fail(err)
                ok, err = check_pubkey_encoding(vch_pubkey, flags, sigversion)      # also for an empty signature
                if not ok:
                    raise _Fail(err)
                f_success = bool(checker.checksig(vch_sig, vch_pubkey, script_code, sigversion))
                if not f_success and flags & F_NULLFAIL and len(vch_sig):
                    raise _Fail("NULLFAIL")
                stack.pop()
                stack.pop()
                stack.append(VCH_TRUE if f_success else VCH_FALSE)
                if opcode == OP_CHECKSIGVERIFY:
                    if f_success:
                        stack.pop()
                    else:
                        raise _Fail("CHECKSIGVERIFY")

            elif opcode == OP_CHECKMULTISIG or opcode == OP_CHECKMULTISIGVERIFY:
                # ([sig ...] num_of_signatures [pubkey ...] num_of_pubkeys -- bool)
                i = 1
                need(i)
                n_keys_count = scriptnum_getint(num(stack[-i]))              # 4-byte operand
                if n_keys_count < 0 or n_keys_count > MAX_PUBKEYS_PER_MULTISIG:
                    raise _Fail("PUBKEY_COUNT")
                n_op_count += n_keys_count
                if n_op_count > MAX_OPS_PER_SCRIPT:
                    raise _Fail("OP_COUNT")
                i += 1
                ikey = i
                # ikey2 is the position of last non-signature item in the stack. Top stack item = 1.
                # With SCRIPT_VERIFY_NULLFAIL, this is used for cleanup if operation fails.
                ikey2 = n_keys_count + 2
                i += n_keys_count
                need(i)
                n_sigs_count = scriptnum_getint(num(stack[-i]))              # 4-byte operand
                if n_sigs_count < 0 or n_sigs_count > n_keys_count:
                    raise _Fail("SIG_COUNT")
                i += 1
                isig = i
                i += n_sigs_count
                need(i)

                script_code = script[pbegincodehash:pend]
                for k in range(n_sigs_count):
                    if sigversion == SIGVERSION_BASE:
                        script_code, _ = find_and_delete(script_code, push_data(stack[-isig - k]))

                f_success = True
                while f_success and n_sigs_count > 0:
                    vch_sig = stack[-isig]
                    vch_pubkey = stack[-ikey]
                    # Note how this makes the exact order of pubkey/signature evaluation distinguishable by
                    # CHECKMULTISIG NOT if the STRICTENC flag is set.
                    ok, err = check_signature_encoding(vch_sig, flags)
                    if not ok:
                        raise _Fail(err)
                    ok, err = check_pubkey_encoding(vch_pubkey, flags, sigversion)
                    if not ok:
                        raise _Fail(err)
                    if checker.checksig(vch_sig, vch_pubkey, script_code, sigversion):
                        isig += 1
                        n_sigs_count -= 1
                    ikey += 1
                    n_keys_count -= 1
                    # If there are more signatures left than keys left, then too many signatures have failed.
                    if n_sigs_count > n_keys_count:
                        f_success = False

                # Clean up stack of actual arguments
                while i > 1:
                    i -= 1
                    # If the operation failed, we require that all signatures must be empty vector
                    if not f_success and flags & F_NULLFAIL and not ikey2 and len(stack[-1]):
                        raise _Fail("NULLFAIL")
                    if ikey2 > 0:
                        ikey2 -= 1
                    stack.pop()

                # A bug causes CHECKMULTISIG to consume one extra argument whose contents were not checked in any
                # way; optionally (NULLDUMMY) verify it is exactly the empty vector.
                need(1)
                if flags & F_NULLDUMMY and len(stack[-1]):
                    raise _Fail("SIG_NULLDUMMY")
                stack.pop()

                stack.append(VCH_TRUE if f_success else VCH_FALSE)
                if opcode == OP_CHECKMULTISIGVERIFY:
                    if f_success:
                        stack.pop()
                    else:
                        raise _Fail("CHECKMULTISIGVERIFY")

            else:
                # OP_RESERVED, OP_VER, OP_VERIF, OP_VERNOTIF, OP_RESERVED1, OP_RESERVED2, 0xba..0xff
                raise _Fail("BAD_OPCODE")

        # ---- size limits, after every opcode (executed or not) ---------------------------------------------------
        if len(stack) + len(altstack) > MAX_STACK_SIZE:
            raise _Fail("STACK_SIZE")

    if vf_exec:
        raise _Fail("UNBALANCED_CONDITIONAL")


# ----------------------------------------------------------------------------------------------------------------
# VerifyWitnessProgram (witness version 0 only; higher versions are 'anyone can spend' before taproot)
# ----------------------------------------------------------------------------------------------------------------
def verify_witness_program(witness, witversion, program, flags, checker):
    """-> (ok, err)"""
    if witversion == 0:
        if len(program) == WITNESS_V0_SCRIPTHASH_SIZE:
            # P2WSH: SHA256(script) is the program; the script is the LAST witness item, the rest are its inputs
            if len(witness) == 0:
                return False, "WITNESS_PROGRAM_WITNESS_EMPTY"
            script_pubkey = witness[-1]
            stack = list(witness[:-1])
            if hashlib.sha256(script_pubkey).digest() != program:
                return False, "WITNESS_PROGRAM_MISMATCH"
        elif len(program) == WITNESS_V0_KEYHASH_SIZE:
            # P2WPKH: exactly signature + pubkey in the witness
            if len(witness) != 2:
                return False, "WITNESS_PROGRAM_MISMATCH"
            script_pubkey = bytes([OP_DUP, OP_HASH160]) + push_data(program) + bytes([OP_EQUALVERIFY, OP_CHECKSIG])
            stack = list(witness)
        else:
            return False, "WITNESS_PROGRAM_WRONG_LENGTH"
    elif flags & F_DISCOURAGE_UPGRADABLE_WITNESS_PROGRAM:
        return False, "DISCOURAGE_UPGRADABLE_WITNESS_PROGRAM"
    else:
        # Higher version witness scripts return true for future softfork compatibility (whatever the witness holds)
        return True, "OK"

    # Disallow stack item size > MAX_SCRIPT_ELEMENT_SIZE in witness stack.  NB: `stack` here no longer contains the
    # P2WSH witness script, which is only limited by MAX_SCRIPT_SIZE (10000) inside EvalScript.
    for elem in stack:
        if len(elem) > MAX_SCRIPT_ELEMENT_SIZE:
            return False, "PUSH_SIZE"

    ok, err, stack = eval_script(stack, script_pubkey, flags, checker, SIGVERSION_WITNESS_V0)
    if not ok:
        return False, err
    # Scripts inside witness implicitly require cleanstack behaviour
    # [VERSION NOTE] the Core generation of the shipped vectors reports EVAL_FALSE here (script_tests.json: witness
    # script 'IF 1 ENDIF' with a false condition -> EVAL_FALSE); Core >= 0.18 reports CLEANSTACK.  Verdict identical.
    if len(stack) != 1:
        return False, "EVAL_FALSE"
    if not cast_to_bool(stack[-1]):
        return False, "EVAL_FALSE"
    return True, "OK"


# ----------------------------------------------------------------------------------------------------------------
# VerifyScript
# ----------------------------------------------------------------------------------------------------------------
def verify_script(script_sig, script_pubkey, witness, flags, checker):
    """VerifyScript -> (ok, err).  witness: list of bytes (None = empty)."""
    flags = flags_to_int(flags)
    checker = _as_checker(checker)
    script_sig = bytes(script_sig)
    script_pubkey = bytes(script_pubkey)
    witness = [bytes(w) for w in (witness or [])]
    had_witness = False

    if flags & F_SIGPUSHONLY and not is_push_only(script_sig):
        return False, "SIG_PUSHONLY"

    ok, err, stack = eval_script([], script_sig, flags, checker, SIGVERSION_BASE)
    if not ok:
        return False, err
    stack_copy = list(stack) if flags & F_P2SH else None
    ok, err, stack = eval_script(stack, script_pubkey, flags, checker, SIGVERSION_BASE)
    if not ok:
        return False, err
    if len(stack) == 0:
        return False, "EVAL_FALSE"
    if not cast_to_bool(stack[-1]):
        return False, "EVAL_FALSE"

    # Bare witness programs
    if flags & F_WITNESS:
        wp = is_witness_program(script_pubkey)
        if wp is not None:
            had_witness = True
            if len(script_sig) != 0:
                # The scriptSig must be _exactly_ CScript(), otherwise we reintroduce malleability.
                return False, "WITNESS_MALLEATED"
            ok, err = verify_witness_program(witness, wp[0], wp[1], flags, checker)
            if not ok:
                return False, err
            # Bypass the cleanstack check at the end. The actual stack is obviously not clean for witness programs.
            stack = stack[:1]

    # Additional validation for spend-to-script-hash transactions:
    if flags & F_P2SH and is_pay_to_script_hash(script_pubkey):
        # scriptSig must be literals-only or validation fails
        if not is_push_only(script_sig):
            return False, "SIG_PUSHONLY"
        # Restore stack (cannot be empty: HASH160 would have failed above).
        stack = stack_copy
        assert len(stack) > 0
        pubkey2 = stack.pop()
        ok, err, stack = eval_script(stack, pubkey2, flags, checker, SIGVERSION_BASE)
        if not ok:
            return False, err
        if len(stack) == 0:
            return False, "EVAL_FALSE"
        if not cast_to_bool(stack[-1]):
            return False, "EVAL_FALSE"

        # P2SH witness program
        if flags & F_WITNESS:
            wp = is_witness_program(pubkey2)
            if wp is not None:
                had_witness = True
                if script_sig != push_data(pubkey2):
                    # The scriptSig must be _exactly_ a single (canonical) push of the redeemScript.
                    return False, "WITNESS_MALLEATED_P2SH"
                ok, err = verify_witness_program(witness, wp[0], wp[1], flags, checker)
                if not ok:
                    return False, err
                stack = stack[:1]

    # The CLEANSTACK check is only performed after potential P2SH evaluation, as the non-P2SH evaluation of a P2SH
    # script will obviously not result in a clean stack (the P2SH inputs remain). Same for witness evaluation.
    if flags & F_CLEANSTACK:
        # Core asserts P2SH and WITNESS are set with CLEANSTACK (see flags_permitted)
        if len(stack) != 1:
            return False, "CLEANSTACK"

    if flags & F_WITNESS:
        # Core asserts P2SH is set with WITNESS
        if not had_witness and len(witness) > 0:
            return False, "WITNESS_UNEXPECTED"

    return True, "OK"


# ----------------------------------------------------------------------------------------------------------------
# RIPEMD-160 (hashlib's is not available with every OpenSSL build): straightforward implementation of the
# reference description (Dobbertin, Bosselaers, Preneel 1996).
# ----------------------------------------------------------------------------------------------------------------
_RMD_R1 = [0, 1, 2, 3, 4, 5, 6, 7, 8, 9, 10, 11, 12, 13, 14, 15, 7, 4, 13, 1, 10, 6, 15, 3, 12, 0, 9, 5, 2, 14, 11, 8,
           3, 10, 14, 4, 9, 15, 8, 1, 2, 7, 0, 6, 13, 11, 5, 12, 1, 9, 11, 10, 0, 8, 12, 4, 13, 3, 7, 15, 14, 5, 6, 2,
           4, 0, 5, 9, 7, 12, 2, 10, 14, 1, 3, 8, 11, 6, 15, 13]
_RMD_R2 = [5, 14, 7, 0, 9, 2, 11, 4, 13, 6, 15, 8, 1, 10, 3, 12, 6, 11, 3, 7, 0, 13, 5, 10, 14, 15, 8, 12, 4, 9, 1, 2,
           15, 5, 1, 3, 7, 14, 6, 9, 11, 8, 12, 2, 10, 0, 4, 13, 8, 6, 4, 1, 3, 11, 15, 0, 5, 12, 2, 13, 9, 7, 10, 14,
           12, 15, 10, 4, 1, 5, 8, 7, 6, 2, 13, 14, 0, 3, 9, 11]
_RMD_S1 = [11, 14, 15, 12, 5, 8, 7, 9, 11, 13, 14, 15, 6, 7, 9, 8, 7, 6, 8, 13, 11, 9, 7, 15, 7, 12, 15, 9, 11, 7, 13,
           12, 11, 13, 6, 7, 14, 9, 13, 15, 14, 8, 13, 6, 5, 12, 7, 5, 11, 12, 14, 15, 14, 15, 9, 8, 9, 14, 5, 6, 8, 6,
           5, 12, 9, 15, 5, 11, 6, 8, 13, 12, 5, 12, 13, 14, 11, 8, 5, 6]
_RMD_S2 = [8, 9, 9, 11, 13, 15, 15, 5, 7, 7, 8, 11, 14, 14, 12, 6, 9, 13, 15, 7, 12, 8, 9, 11, 7, 7, 12, 7, 6, 15, 13,
           11, 9, 7, 15, 11, 8, 6, 6, 14, 12, 13, 5, 14, 13, 13, 7, 5, 15, 5, 8, 11, 14, 14, 6, 14, 6, 9, 12, 9, 12, 5,
           15, 8, 8, 5, 12, 9, 12, 5, 14, 6, 8, 13, 6, 5, 15, 13, 11, 11]
_RMD_K1 = [0x00000000, 0x5A827999, 0x6ED9EBA1, 0x8F1BBCDC, 0xA953FD4E]
_RMD_K2 = [0x50A28BE6, 0x5C4DD124, 0x6D703EF3, 0x7A6D76E9, 0x00000000]


def _rmd_f(j, x, y, z):
    if j < 16:
        return x ^ y ^ z
    if j < 32:
        return (x & y) | (~x & 0xffffffff & z)
    if j < 48:
        return (x | (~y & 0xffffffff)) ^ z
    if j < 64:
        return (x & z) | (y & (~z & 0xffffffff))
    return x ^ (y | (~z & 0xffffffff))


def _rol(x, n):
    return ((x << n) | (x >> (32 - n))) & 0xffffffff


def ripemd160(data):
    h = [0x67452301, 0xEFCDAB89, 0x98BADCFE, 0x10325476, 0xC3D2E1F0]
    msg = bytes(data) + b"\x80"
    msg += b"\x00" * ((56 - len(msg)) % 64)
    msg += (8 * len(data)).to_bytes(8, "little")
    for off in range(0, len(msg), 64):
        x = [int.from_bytes(msg[off + 4 * i:off + 4 * i + 4], "little") for i in range(16)]
        a1, b1, c1, d1, e1 = h
        a2, b2, c2, d2, e2 = h
        for j in range(80):
            t = (_rol((a1 + _rmd_f(j, b1, c1, d1) + x[_RMD_R1[j]] + _RMD_K1[j // 16]) & 0xffffffff, _RMD_S1[j]) + e1) & 0xffffffff
            a1, e1, d1, c1, b1 = e1, d1, _rol(c1, 10), b1, t
            t = (_rol((a2 + _rmd_f(79 - j, b2, c2, d2) + x[_RMD_R2[j]] + _RMD_K2[j // 16]) & 0xffffffff, _RMD_S2[j]) + e2) & 0xffffffff
            a2, e2, d2, c2, b2 = e2, d2, _rol(c2, 10), b2, t
        t = (h[1] + c1 + d2) & 0xffffffff
        h[1] = (h[2] + d1 + e2) & 0xffffffff
        h[2] = (h[3] + e1 + a2) & 0xffffffff
        h[3] = (h[4] + a1 + b2) & 0xffffffff
        h[4] = (h[0] + b1 + c2) & 0xffffffff
        h[0] = t
    return b"".join(v.to_bytes(4, "little") for v in h)


def sha256d(b):
    return hashlib.sha256(hashlib.sha256(b).digest()).digest()


def hash160(b):
    return ripemd160(hashlib.sha256(b).digest())


# ----------------------------------------------------------------------------------------------------------------
# secp256k1 ECDSA verification (and signing, for building test material) -- textbook affine/Jacobian arithmetic
# ----------------------------------------------------------------------------------------------------------------
_P = SECP256K1_P
_N = SECP256K1_N
_G = (0x79BE667EF9DCBBAC55A06295CE870B07029BFCDB2DCE28D959F2815B16F81798,
      0x483ADA7726A3C4655DA4FBFC0E1108A8FD17B448A68554199C47D08FFB10D4B8)


def _jac_double(p):
    if p is None:
        return None
    x, y, z = p
    if y == 0:
        return None
    s = (4 * x * y * y) % _P
    m = (3 * x * x) % _P               # a = 0
    nx = (m * m - 2 * s) % _P
    ny = (m * (s - nx) - 8 * y * y * y * y) % _P
    nz = (2 * y * z) % _P
    return nx, ny, nz


def _jac_add(p, q):
    if p is None:
        return q
    if q is None:
        return p
    x1, y1, z1 = p
    x2, y2, z2 = q
    z1z1 = z1 * z1 % _P
    z2z2 = z2 * z2 % _P
    u1 = x1 * z2z2 % _P
    u2 = x2 * z1z1 % _P
    s1 = y1 * z2 * z2z2 % _P
    s2 = y2 * z1 * z1z1 % _P
    if u1 == u2:
        if s1 != s2:
            return None
        return _jac_double(p)
    h = (u2 - u1) % _P
    r = (s2 - s1) % _P
    h2 = h * h % _P
    h3 = h * h2 % _P
    nx = (r * r - h3 - 2 * u1 * h2) % _P
    ny = (r * (u1 * h2 - nx) - s1 * h3) % _P
    nz = h * z1 * z2 % _P
    return nx, ny, nz


def _to_affine(p):
    if p is None:
        return None
    x, y, z = p
    zi = pow(z, _P - 2, _P)
    return x * zi * zi % _P, y * zi * zi * zi % _P


def _mul2(a, pa, b, pb):
    """a*pa + b*pb (affine inputs, Jacobian result), Shamir's trick"""
    ja = (pa[0], pa[1], 1)
    jb = (pb[0], pb[1], 1)
    jab = _jac_add(ja, jb)
    r = None
    for i in range(max(a.bit_length(), b.bit_length()) - 1, -1, -1):
        r = _jac_double(r)
        ba, bb = (a >> i) & 1, (b >> i) & 1
        if ba and bb:
            r = _jac_add(r, jab)
        elif ba:
            r = _jac_add(r, ja)
        elif bb:
            r = _jac_add(r, jb)
    return r


def ec_mul(k, point=_G):
    r = None
    q = (point[0], point[1], 1)
    while k:
        if k & 1:
            r = _jac_add(r, q)
        q = _jac_double(q)
        k >>= 1
    return _to_affine(r)


def parse_pubkey(pubkey):
    """secp256k1_ec_pubkey_parse: 02/03 compressed, 04 uncompressed, 06/07 hybrid (parity must match) -> (x, y)/None"""
    if len(pubkey) == 33 and pubkey[0] in (2, 3):
        x = int.from_bytes(pubkey[1:], "big")
        if x >= _P:
            return None
        y2 = (x * x * x + 7) % _P
        y = pow(y2, (_P + 1) // 4, _P)
        if y * y % _P != y2:
            return None
        if (y & 1) != (pubkey[0] & 1):
            y = _P - y
        return x, y
    if len(pubkey) == 65 and pubkey[0] in (4, 6, 7):
        x = int.from_bytes(pubkey[1:33], "big")
        y = int.from_bytes(pubkey[33:], "big")
        if x >= _P or y >= _P:
            return None
        if (y * y - x * x * x - 7) % _P != 0:
            return None
        if pubkey[0] in (6, 7) and (y & 1) != (pubkey[0] & 1):
            return None
        return x, y
    return None


def ecdsa_verify(point, z, r, s):
    """plain ECDSA verification for any 1 <= r, s < n.  (libsecp256k1's verify rejects high-S signatures, but
    CPubKey::Verify first normalises the signature with secp256k1_ecdsa_signature_normalize, so for consensus both
    s and n-s verify; high S is only rejected by the LOW_S *encoding* rule.)"""
    if not (1 <= r < _N and 1 <= s < _N):
        return False
    w = pow(s, _N - 2, _N)
    u1 = z * w % _N
    u2 = r * w % _N
    pt = _mul2(u1, _G, u2, point)
    if pt is None:
        return False
    x = _to_affine(pt)[0]
    return x % _N == r


def ecdsa_sign(secret, z, k):
    """(r, s) for nonce k (caller chooses k; test material only), low-S normalised"""
    r = ec_mul(k)[0] % _N
    s = pow(k, _N - 2, _N) * (z + r * secret) % _N
    if s > _N // 2:
        s = _N - s
    return r, s


def der_encode_sig(r, s):
    def enc_int(v):
        b = v.to_bytes((v.bit_length() + 7) // 8 or 1, "big")
        if b[0] & 0x80:
            b = b"\x00" + b
        return b"\x02" + bytes([len(b)]) + b
    body = enc_int(r) + enc_int(s)
    return b"\x30" + bytes([len(body)]) + body


def pubkey_bytes(point, compressed=True):
    if compressed:
        return bytes([2 + (point[1] & 1)]) + point[0].to_bytes(32, "big")
    return b"\x04" + point[0].to_bytes(32, "big") + point[1].to_bytes(32, "big")


# ----------------------------------------------------------------------------------------------------------------
# Transactions, signature hashes and the transaction signature checker
# ----------------------------------------------------------------------------------------------------------------
def ser_compact_size(n):
    if n < 253:
        return bytes([n])
    if n <= 0xffff:
        return b"\xfd" + n.to_bytes(2, "little")
    if n <= 0xffffffff:
        return b"\xfe" + n.to_bytes(4, "little")
    return b"\xff" + n.to_bytes(8, "little")


def ser_string(b):
    return ser_compact_size(len(b)) + b


class SpecTxIn(object):
    def __init__(self, prev_hash, prev_index, script_sig=b"", sequence=0xffffffff, witness=()):
        self.prev_hash = bytes(prev_hash)            # 32 bytes, serialization order
        self.prev_index = prev_index
        self.script_sig = bytes(script_sig)
        self.sequence = sequence
        self.witness = [bytes(w) for w in witness]


class SpecTxOut(object):
    def __init__(self, value, script):
        self.value = value
        self.script = bytes(script)


class SpecTx(object):
    def __init__(self, version, txs_in, txs_out, lock_time=0):
        self.version = version                       # as uint32
        self.txs_in = list(txs_in)
        self.txs_out = list(txs_out)
        self.lock_time = lock_time

    @classmethod
    def parse(cls, raw):
        """deserialize (BIP144 aware)"""
        pos = [0]

        def take(n):
            b = raw[pos[0]:pos[0] + n]
            if len(b) != n:
                raise ValueError("truncated tx")
            pos[0] += n
            return b

        def cs():
            v = take(1)[0]
            if v < 253:
                return v
            return int.from_bytes(take({253: 2, 254: 4, 255: 8}[v]), "little")

        version = int.from_bytes(take(4), "little")
        n_in = cs()
        segwit = False
        if n_in == 0:
            flag = take(1)[0]
            if flag != 1:
                raise ValueError("bad segwit flag")
            segwit = True
            n_in = cs()
        txs_in = []
        for _ in range(n_in):
            h = take(32)
            idx = int.from_bytes(take(4), "little")
            s = take(cs())
            seq = int.from_bytes(take(4), "little")
            txs_in.append(SpecTxIn(h, idx, s, seq))
        txs_out = []
        for _ in range(cs()):
            v = int.from_bytes(take(8), "little")
            txs_out.append(SpecTxOut(v, take(cs())))
        if segwit:
            for ti in txs_in:
                ti.witness = [take(cs()) for _ in range(cs())]
        lock_time = int.from_bytes(take(4), "little")
        return cls(version, txs_in, txs_out, lock_time)

    def serialize_no_witness(self):
        out = [self.version.to_bytes(4, "little"), ser_compact_size(len(self.txs_in))]
        for ti in self.txs_in:
            out += [ti.prev_hash, ti.prev_index.to_bytes(4, "little"), ser_string(ti.script_sig), ti.sequence.to_bytes(4, "little")]
        out.append(ser_compact_size(len(self.txs_out)))
        for to in self.txs_out:
            out += [to.value.to_bytes(8, "little"), ser_string(to.script)]
        out.append(self.lock_time.to_bytes(4, "little"))
        return b"".join(out)

    def txid(self):
        return sha256d(self.serialize_no_witness())


def _strip_codeseparators(script):
    """CTransactionSignatureSerializer::SerializeScriptCode: OP_CODESEPARATORs (at opcode boundaries) are skipped"""
    out = bytearray()
    pc = 0
    start = 0
    while pc < len(script):
        ok, opcode, _, npc = get_op(script, pc)
        if not ok:
            break
        if opcode == OP_CODESEPARATOR:
            out += script[start:pc]
            start = npc
        pc = npc
    out += script[start:]
    return bytes(out)


def legacy_signature_hash(script_code, tx, n_in, hash_type):
    """SignatureHash, SigVersion::BASE (hash_type: the full int whose low byte is the sighash byte)"""
    one = (1).to_bytes(32, "little")
    if n_in >= len(tx.txs_in):
        return one
    base = hash_type & 0x1f
    if base == SIGHASH_SINGLE and n_in >= len(tx.txs_out):
        return one                                  # the famous SIGHASH_SINGLE bug
    anyone = bool(hash_type & SIGHASH_ANYONECANPAY)
    script_code = _strip_codeseparators(script_code)
    out = [tx.version.to_bytes(4, "little")]
    ins = [n_in] if anyone else list(range(len(tx.txs_in)))
    out.append(ser_compact_size(len(ins)))
    for i in ins:
        ti = tx.txs_in[i]
        out += [ti.prev_hash, ti.prev_index.to_bytes(4, "little")]
        out.append(ser_string(script_code) if i == n_in else ser_string(b""))
        if i != n_in and base in (SIGHASH_SINGLE, SIGHASH_NONE):
            out.append((0).to_bytes(4, "little"))
        else:
            out.append(ti.sequence.to_bytes(4, "little"))
    n_out = 0 if base == SIGHASH_NONE else (n_in + 1 if base == SIGHASH_SINGLE else len(tx.txs_out))
    out.append(ser_compact_size(n_out))
    for i in range(n_out):
        if base == SIGHASH_SINGLE and i != n_in:
            out += [(0xffffffffffffffff).to_bytes(8, "little"), ser_string(b"")]        # CTxOut() = (-1, empty)
        else:
            out += [tx.txs_out[i].value.to_bytes(8, "little"), ser_string(tx.txs_out[i].script)]
    out.append(tx.lock_time.to_bytes(4, "little"))
    out.append((hash_type & 0xffffffff).to_bytes(4, "little"))
    return sha256d(b"".join(out))


def witness_v0_signature_hash(script_code, tx, n_in, hash_type, amount):
    """SignatureHash, SigVersion::WITNESS_V0 (BIP143); script_code is NOT stripped of code separators"""
    base = hash_type & 0x1f
    anyone = bool(hash_type & SIGHASH_ANYONECANPAY)
    zero = b"\x00" * 32
    hash_prevouts = hash_sequence = hash_outputs = zero
    if not anyone:
        hash_prevouts = sha256d(b"".join(ti.prev_hash + ti.prev_index.to_bytes(4, "little") for ti in tx.txs_in))
    if not anyone and base != SIGHASH_SINGLE and base != SIGHASH_NONE:
        hash_sequence = sha256d(b"".join(ti.sequence.to_bytes(4, "little") for ti in tx.txs_in))
    if base != SIGHASH_SINGLE and base != SIGHASH_NONE:
        hash_outputs = sha256d(b"".join(to.value.to_bytes(8, "little") + ser_string(to.script) for to in tx.txs_out))
    elif base == SIGHASH_SINGLE and n_in < len(tx.txs_out):
        to = tx.txs_out[n_in]
        hash_outputs = sha256d(to.value.to_bytes(8, "little") + ser_string(to.script))
    ti = tx.txs_in[n_in]
    pre = (tx.version.to_bytes(4, "little") + hash_prevouts + hash_sequence + ti.prev_hash +
           ti.prev_index.to_bytes(4, "little") + ser_string(script_code) + (amount & 0xffffffffffffffff).to_bytes(8, "little") +
           ti.sequence.to_bytes(4, "little") + hash_outputs + tx.lock_time.to_bytes(4, "little") +
           (hash_type & 0xffffffff).to_bytes(4, "little"))
    return sha256d(pre)


class TransactionChecker(BaseChecker):
    """GenericTransactionSignatureChecker: independent sighash + ECDSA + lock-time checks"""

    def __init__(self, tx, n_in, amount=0):
        self.tx = tx
        self.n_in = n_in
        self.amount = amount
        self._cache = {}

    def sighash(self, script_code, hash_type, sigversion):
        if sigversion == SIGVERSION_WITNESS_V0:
            return witness_v0_signature_hash(script_code, self.tx, self.n_in, hash_type, self.amount)
        return legacy_signature_hash(script_code, self.tx, self.n_in, hash_type)

    def checksig(self, sig, pubkey, script_code, sigversion):
        key = (sig, pubkey, script_code, sigversion)
        if key not in self._cache:
            self._cache[key] = self._checksig(sig, pubkey, script_code, sigversion)
        return self._cache[key]

    def _checksig(self, sig, pubkey, script_code, sigversion):
        point = parse_pubkey(pubkey)                 # CPubKey::IsValid / secp256k1_ec_pubkey_parse
        if point is None:
            return False
        # Hash type is one byte tacked on to the end of the signature
        if len(sig) == 0:
            return False
        hash_type = sig[-1]
        rs = parse_der_lax(sig[:-1])
        if rs is None:
            return False
        z = int.from_bytes(self.sighash(script_code, hash_type, sigversion), "big")
        return ecdsa_verify(point, z, rs[0], rs[1])

    def check_lock_time(self, n_lock_time):
        tx_lock = self.tx.lock_time
        # same kind (block height vs unix time) on both sides
        if not ((tx_lock < LOCKTIME_THRESHOLD and n_lock_time < LOCKTIME_THRESHOLD) or
                (tx_lock >= LOCKTIME_THRESHOLD and n_lock_time >= LOCKTIME_THRESHOLD)):
            return False
        if n_lock_time > tx_lock:
            return False
        # nLockTime is disabled when the input is final
        if self.tx.txs_in[self.n_in].sequence == SEQUENCE_FINAL:
            return False
        return True

    def check_sequence(self, n_sequence):
        tx_sequence = self.tx.txs_in[self.n_in].sequence
        # Fail if the transaction's version number is not set high enough to trigger BIP 68 rules
        # (static_cast<uint32_t>(nVersion) < 2)
        if (self.tx.version & 0xffffffff) < 2:
            return False
        if tx_sequence & SEQUENCE_LOCKTIME_DISABLE_FLAG:
            return False
        mask = SEQUENCE_LOCKTIME_TYPE_FLAG | SEQUENCE_LOCKTIME_MASK
        tx_masked = tx_sequence & mask
        n_masked = n_sequence & mask
        if not ((tx_masked < SEQUENCE_LOCKTIME_TYPE_FLAG and n_masked < SEQUENCE_LOCKTIME_TYPE_FLAG) or
                (tx_masked >= SEQUENCE_LOCKTIME_TYPE_FLAG and n_masked >= SEQUENCE_LOCKTIME_TYPE_FLAG)):
            return False
        if n_masked > tx_masked:
            return False
        return True


# ----------------------------------------------------------------------------------------------------------------
# Core's test-vector script syntax (core_read.cpp ParseScript) and the crediting / spending transactions of
# script_tests.cpp -- needed to validate THIS file against script_tests.json
# ----------------------------------------------------------------------------------------------------------------
def _op_name_table():
    t = {}
    for op in range(0, OP_NOP10 + 1):
        # Allow OP_RESERVED to get into mapOpNames; the other push opcodes have no parsable name
        if op < OP_NOP and op != OP_RESERVED:
            continue
        name = OPCODE_NAMES.get(op)
        if name is None:
            continue
        t[name] = op
        t[name[3:]] = op
    # GetOpName calls 0xb1/0xb2 CHECKLOCKTIMEVERIFY/CHECKSEQUENCEVERIFY; older vectors also use NOP2/NOP3
    t.update({"OP_NOP2": 0xb1, "NOP2": 0xb1, "OP_NOP3": 0xb2, "NOP3": 0xb2})
    return t


_OP_NAMES = _op_name_table()


def parse_script(s):
    out = bytearray()
    for w in s.replace("\t", " ").replace("\n", " ").split(" "):
        if w == "":
            continue
        if w.isdigit() or (w[0] == "-" and len(w) > 1 and w[1:].isdigit()):
            out += push_int(int(w))
        elif w.startswith("0x") and len(w) > 2 and all(c in "0123456789abcdefABCDEF" for c in w[2:]):
            out += bytes.fromhex(w[2:])              # raw hex, inserted NOT pushed
        elif len(w) >= 2 and w[0] == "'" and w[-1] == "'":
            out += push_data(w[1:-1].encode("latin-1"))
        elif w in _OP_NAMES:
            out.append(_OP_NAMES[w])
        else:
            raise ValueError("script parse error: %r" % w)
    return bytes(out)


def build_crediting_tx(script_pubkey, value=0):
    return SpecTx(1, [SpecTxIn(b"\x00" * 32, 0xffffffff, push_int(0) + push_int(0), SEQUENCE_FINAL)],
                  [SpecTxOut(value, script_pubkey)], 0)


def build_spending_tx(script_sig, witness, credit_tx):
    return SpecTx(1, [SpecTxIn(credit_tx.txid(), 0, script_sig, SEQUENCE_FINAL, witness)],
                  [SpecTxOut(credit_tx.txs_out[0].value, b"")], 0)
