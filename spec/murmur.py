"""MurmurHash3 x86_32 (Appleby) on explicit 32-bit words, and BIP37's use of it (C19).

Words are integers in [0, 2**32); products and sums are reduced modulo 2**32, a rotation by r is
(x * 2**r mod 2**32) + (x div 2**(32-r)), and the only bit operation left is xor (`bit_xor`, uninterpreted on the SMT
side, Python's ^ natively) whose two laws -- it commutes with truncation to a word and keeps words words -- are the
axioms xor_mod32 / xor_word (Lean: lean/BitOps.lean).  The executable form of this specification is pinned to the
published SMHasher / Bitcoin Core vectors by the bounded harness C19.murmur3_reference."""
from pyvc.api import spec, implies, axiom, lemma, Int, Bytes
from spec.core import pow2

M32 = 1 << 32
C1 = 0xCC9E2D51
C2 = 0x1B873593


@spec(rec=True, axiomatic=True, args=['int', 'int'], ret='int', post=lambda a, b, result: (xor_mod32(a, b), xor_word(a, b)))
def bit_xor(a, b):
    """Python's ^ on non-negative integers (uninterpreted; its laws are xor_mod32 and xor_word)"""
    return a ^ b


@spec(rec=True, axiomatic=True, args=['int', 'int'], ret='int')
def bit_or(a, b):
    """Python's | on integers (uninterpreted; the verifier replaces x | y by x + y when or_disjoint applies)"""
    return a | b


@axiom(sig=dict(a=Int(0), b=Int(0)), reason="xor commutes with truncation to 32 bits (Lean core: Nat.xor_mod_two_pow)", lean="lean/BitOps.lean")
def xor_mod32(a, b):
    return implies(a >= 0 and b >= 0, bit_xor(a, b) >= 0 and bit_xor(a, b) % 4294967296 == bit_xor(a % 4294967296, b % 4294967296))


@axiom(sig=dict(a=Int(0), b=Int(0)), reason="the xor of two 32-bit words is a 32-bit word (Lean core: Nat.xor_lt_two_pow)", lean="lean/BitOps.lean")
def xor_word(a, b):
    return implies(0 <= a and a < 4294967296 and 0 <= b and b < 4294967296, 0 <= bit_xor(a, b) and bit_xor(a, b) < 4294967296)


@axiom(sig=dict(a=Int(0), b=Int(0), k=Int(0)), reason="or-ing a number below 2**k into one whose low k bits are zero adds it (Lean core: Nat.two_pow_add_eq_or_of_lt)",
       lean="lean/BitOps.lean")
def or_disjoint(a, b, k):
    return implies(a >= 0 and 0 <= b and b < pow2(k) and k >= 0 and a % pow2(k) == 0, bit_or(a, b) == a + b)


@spec
def rotl32(x, r):
    """rotate the 32-bit word x left by r (0 < r < 32)"""
    return (x * (1 << r)) % 4294967296 + x // (1 << (32 - r))


@spec
def mm_scramble(k):
    """the per-block scrambling of MurmurHash3: k *= c1; k = ROTL32(k, 15); k *= c2"""
    k = (k * 0xCC9E2D51) % 4294967296
    k = rotl32(k, 15)
    return (k * 0x1B873593) % 4294967296


@spec
def mm_word(data, j):
    """the j-th little-endian 32-bit word of data"""
    return data[4 * j] + 256 * data[4 * j + 1] + 65536 * data[4 * j + 2] + 16777216 * data[4 * j + 3]


@spec
def mm_round(h, w):
    """one block: h ^= scramble(w); h = ROTL32(h, 13); h = h*5 + 0xe6546b64"""
    return (rotl32(bit_xor(h, mm_scramble(w)), 13) * 5 + 0xE6546B64) % 4294967296


@spec(rec=True, opaque=True, args=['bytes', 'int', 'int'], ret='int')
def mm_blocks(data, n, seed):
    """the running hash after the first n whole blocks"""
    if n <= 0:
        return seed % 4294967296
    return mm_round(mm_blocks(data, n - 1, seed), mm_word(data, n - 1))


@lemma(sig=dict(data=Bytes(), seed=Int()), options={'reveal': ['mm_blocks']}, props=["C19"])
def mm_zero(data, seed):
    return mm_blocks(data, 0, seed) == seed % 4294967296


@lemma(sig=dict(data=Bytes(), n=Int(0), seed=Int()), options={'reveal': ['mm_blocks']}, props=["C19"])
def mm_step(data, n, seed):
    return implies(n >= 0 and 4 * n + 3 < len(data), mm_blocks(data, n + 1, seed) == mm_round(mm_blocks(data, n, seed), mm_word(data, n)))


@lemma(sig=dict(data=Bytes(), n=Int(), seed=Int()), options={'reveal': ['mm_blocks']}, props=["C19"])
def mm_is_word(data, n, seed):
    return 0 <= mm_blocks(data, n, seed) and mm_blocks(data, n, seed) < 4294967296


@spec
def mm_tail_word(data, base, r):
    """the 1..3 bytes after the last whole block, little endian"""
    k = data[base]
    if r >= 2:
        k = k + 256 * data[base + 1]
    if r >= 3:
        k = k + 65536 * data[base + 2]
    return k


@spec
def mm_mix_tail(data, h):
    """h after the 1..3 trailing bytes (if any) are mixed in"""
    n = len(data)
    if n % 4 != 0:
        h = bit_xor(h, mm_scramble(mm_tail_word(data, 4 * (n // 4), n % 4)))
    return h


@spec
def mm_body(data, seed):
    """the hash after all whole blocks and the tail, before the length is mixed in"""
    return mm_mix_tail(data, mm_blocks(data, len(data) // 4, seed))


@spec
def fmix_a(h):
    return bit_xor(h, h // 65536)


@spec
def fmix_b(h):
    return (fmix_a(h) * 0x85EBCA6B) % 4294967296


@spec
def fmix_c(h):
    return bit_xor(fmix_b(h), fmix_b(h) // 8192)


@spec
def fmix_d(h):
    return (fmix_c(h) * 0xC2B2AE35) % 4294967296


@spec
def fmix32(h):
    """MurmurHash3's finaliser: h ^= h >> 16; h *= 0x85ebca6b; h ^= h >> 13; h *= 0xc2b2ae35; h ^= h >> 16"""
    return bit_xor(fmix_d(h), fmix_d(h) // 65536)


@spec(rec=True, opaque=True, args=['bytes', 'int'], ret='int')
def mm_finish(data, h):
    """from the hash of the whole blocks to the result: tail, length, finaliser"""
    return fmix32(bit_xor(mm_mix_tail(data, h), len(data)))


@spec
def murmur3_32(data, seed):
    """MurmurHash3_x86_32(data, seed) for len(data) < 2**32"""
    return mm_finish(data, mm_blocks(data, len(data) // 4, seed))


@lemma(sig=dict(data=Bytes(), n=Int(), seed=Int()), induct=lambda data, n, seed: n, options={'reveal': ['mm_blocks']}, props=["C19"])
def mm_seed_wraps(data, n, seed):
    """only the low 32 bits of the seed matter"""
    if n > 0:
        mm_seed_wraps(data, n - 1, seed)
    return mm_blocks(data, n, seed) == mm_blocks(data, n, seed % 4294967296)


@lemma(sig=dict(data=Bytes(), seed=Int()), props=["C19"])
def murmur3_seed32(data, seed):
    """a seed of any width hashes like its truncation to 32 bits (BIP37 computes nHashNum * 0xFBA4C795 + nTweak in uint32)"""
    mm_seed_wraps(data, len(data) // 4, seed)
    return murmur3_32(data, seed) == murmur3_32(data, seed % 4294967296)
