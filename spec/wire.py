"""Bitcoin wire-format specifications for transactions (C07, C04, C20)."""
from pyvc.api import spec, implies, lemma, Int, Bytes, unfold
from pyvc.values import RecType
from spec.core import *
from pycoin.coins.bitcoin.TxIn import TxIn
from pycoin.coins.bitcoin.TxOut import TxOut

TxInT = RecType('TxIn', TxIn, dict(previous_hash='bytes', previous_index='int', script='bytes', sequence='int', witness=('seq', 'bytes')))
TxOutT = RecType('TxOut', TxOut, dict(coin_value='int', script='bytes'))
K_TXIN = ('rec', TxInT)
K_TXOUT = ('rec', TxOutT)
K_TXINS = ('seq', K_TXIN)
K_TXOUTS = ('seq', K_TXOUT)
K_WIT = ('seq', 'bytes')


@spec
def wf_txin(t):
    return (len(t.previous_hash) == 32 and 0 <= t.previous_index and t.previous_index < 2 ** 32
            and 0 <= t.sequence and t.sequence < 2 ** 32)


@spec
def wf_txout(t):
    return 0 <= t.coin_value and t.coin_value < 2 ** 64


@spec(opaque=True, args=[K_TXIN, 'bool'], ret='bytes')
def ser_txin(t, blank):
    """outpoint (32-byte hash, LE32 index), var-string script (empty when blanked), LE32 sequence"""
    return t.previous_hash + le(t.previous_index, 4) + varstr(b"" if blank else t.script) + le(t.sequence, 4)


@spec(opaque=True, args=[K_TXOUT], ret='bytes')
def ser_txout(t):
    return le(t.coin_value, 8) + varstr(t.script)


# Folds are written over an index ("the first i elements") rather than over slices: unfolding them then needs
# only integer reasoning, which keeps the VCs within reach of the sequence solvers.

@spec(rec=True, args=[K_TXINS, 'int', 'bool'], ret='bytes')
def ser_txins_upto(xs, i, blank):
    if i <= 0:
        return b""
    return ser_txins_upto(xs, i - 1, blank) + ser_txin(xs[i - 1], blank)


@spec
def ser_txins(xs, blank):
    return ser_txins_upto(xs, len(xs), blank)


@spec(rec=True, args=[K_TXOUTS, 'int'], ret='bytes')
def ser_txouts_upto(xs, i):
    if i <= 0:
        return b""
    return ser_txouts_upto(xs, i - 1) + ser_txout(xs[i - 1])


@spec
def ser_txouts(xs):
    return ser_txouts_upto(xs, len(xs))


@spec(rec=True, args=[K_WIT, 'int'], ret='bytes')
def ser_items_upto(ws, i):
    """concatenated var-strings of the first i items"""
    if i <= 0:
        return b""
    return ser_items_upto(ws, i - 1) + varstr(ws[i - 1])


@spec(opaque=True, args=[K_WIT], ret='bytes')
def ser_witness(ws):
    return compact_size(len(ws)) + ser_items_upto(ws, len(ws))


@spec(rec=True, args=[K_TXINS, 'int'], ret='bytes')
def ser_witnesses_upto(xs, i):
    if i <= 0:
        return b""
    return ser_witnesses_upto(xs, i - 1) + ser_witness(xs[i - 1].witness)


@spec
def ser_witnesses(xs):
    return ser_witnesses_upto(xs, len(xs))


@spec(rec=True, args=[K_TXINS, 'int'], ret='bool')
def any_witness_upto(xs, i):
    if i <= 0:
        return False
    return any_witness_upto(xs, i - 1) or len(xs[i - 1].witness) > 0


@spec
def any_witness(xs):
    return any_witness_upto(xs, len(xs))


@spec(rec=True, args=[K_TXINS, 'int'], ret='bool')
def all_wf_txin_upto(xs, i):
    if i <= 0:
        return True
    return all_wf_txin_upto(xs, i - 1) and wf_txin(xs[i - 1])


@spec
def all_wf_txin(xs):
    return all_wf_txin_upto(xs, len(xs))


@spec(rec=True, args=[K_TXOUTS, 'int'], ret='bool')
def all_wf_txout_upto(xs, i):
    if i <= 0:
        return True
    return all_wf_txout_upto(xs, i - 1) and wf_txout(xs[i - 1])


@spec
def all_wf_txout(xs):
    return all_wf_txout_upto(xs, len(xs))


@spec
def ser_tx(version, txs_in, txs_out, lock_time, blank, with_witness):
    """standard serialisation: legacy form, or BIP144 extended form (marker 00, flag 01, witnesses before lock time)"""
    head = le(version, 4) + (b"\x00\x01" if with_witness else b"")
    body = compact_size(len(txs_in)) + ser_txins(txs_in, blank) + compact_size(len(txs_out)) + ser_txouts(txs_out)
    wit = ser_witnesses(txs_in) if with_witness else b""
    return head + body + wit + le(lock_time, 4)
