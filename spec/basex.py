"""Positional notation in base 256 / base 58 as used by pycoin.encoding.base_conversion and b58 (C11).

A digit string is a byte string; `digit_of(b, c)` is the digit a character stands for (-1: not a digit), `char_of(b, d)`
the character of a digit.  Values are big-endian (first character most significant).  The *leading-zero count* is the
number of non-empty prefixes whose value is 0, which is how to_long counts them."""
from pyvc.api import spec, implies, lemma, axiom, Int, Bytes, unfold
from spec.core import *

B58 = b"123456789ABCDEFGHJKLMNPQRSTUVWXYZabcdefghijkmnopqrstuvwxyz"
B58_INDEX = dict((c, i) for i, c in enumerate(B58))


@spec(opaque=True, args=['int', 'int'], ret='int')
def digit_of(b, c):
    if b == 256:
        return c
    return B58_INDEX.get(c, -1)


@spec(opaque=True, args=['int', 'int'], ret='int')
def char_of(b, d):
    if b == 256:
        return d
    return B58[d]


@spec(rec=True, args=['int', 'bytes', 'int'], ret='int')
def dval_upto(b, s, i):
    """value of the first i characters of s read as base-b digits"""
    if i <= 0:
        return 0
    return dval_upto(b, s, i - 1) * b + digit_of(b, s[i - 1])


@spec(rec=True, args=['int', 'bytes', 'int'], ret='int', post=lambda b, s, i, result: result >= 0)
def zpre_upto(b, s, i):
    """number of non-empty prefixes of s[:i] with value zero (= number of leading zero digits)"""
    if i <= 0:
        return 0
    return zpre_upto(b, s, i - 1) + (1 if dval_upto(b, s, i) == 0 else 0)


@spec(rec=True, args=['int', 'bytes', 'int'], ret='bool')
def digits_ok_upto(b, s, i):
    """each of the first i characters is a digit of base b"""
    if i <= 0:
        return True
    return digits_ok_upto(b, s, i - 1) and digit_of(b, s[i - 1]) >= 0 and digit_of(b, s[i - 1]) < b


@spec(rec=True, args=['int', 'int'], ret='bytes')
def lsd_chars(b, v):
    """characters of the base-b digits of v >= 0, least significant first (empty for 0)"""
    if v <= 0:
        return b""
    return bytes([char_of(b, v % b)]) + lsd_chars(b, v // b)


@spec
def positional(b, v, zeros):
    """text of v in base b behind `zeros` zero digits, most significant first: the reversal of the digits written
    least significant first and followed by the zero digits"""
    return seq_reverse(lsd_chars(b, v) + repeat_byte(char_of(b, 0), zeros))


@spec(rec=True, args=['bytes', 'int'], ret='bool')
def ascii_upto(s, i):
    if i <= 0:
        return True
    return ascii_upto(s, i - 1) and 0 <= s[i - 1] and s[i - 1] < 128


# ---------------------------------------------------------------- lemmas
@lemma(sig=dict(b=Int(2), s=Bytes(), n=Int(0), i=Int(0)), induct=lambda b, s, n, i: n, props=["C11"])
def digits_ok_prefix(b, s, n, i):
    """digits up to n are digits up to every i <= n"""
    if i < n:
        digits_ok_prefix(b, s, n - 1, i)
    return implies(digits_ok_upto(b, s, n) and 0 <= i and i <= n, digits_ok_upto(b, s, i))


# ---------------------------------------------------------------- towards decode(encode(s)) == s
@spec(rec=True, args=['int', 'int'], ret='int', post=lambda b, k, result: result >= 1)
def powb(b, k):
    if k <= 0:
        return 1
    return b * powb(b, k - 1)


@spec(rec=True, args=['int', 'bytes', 'int'], ret='int')
def lval_upto(b, x, i):
    """value of the first i characters of x read as base-b digits, least significant first"""
    if i <= 0:
        return 0
    return lval_upto(b, x, i - 1) + digit_of(b, x[i - 1]) * powb(b, i - 1)


def _base_lemmas(B):
    """the lemma family for one concrete base (arithmetic stays linear in everything but powb(B, k) * digit)"""
    sfx = str(B)

    def dval_prefix(t, u, i):
        """the value of the first i characters does not depend on what follows them"""
        if i > 0:
            dval_prefix(t, u, i - 1)
        return implies(0 <= i and i <= len(t), dval_upto(B, t + u, i) == dval_upto(B, t, i))
    dval_prefix.__name__ = "dval_prefix" + sfx
    dval_prefix = lemma(sig=dict(t=Bytes(), u=Bytes(), i=Int(0)), induct=lambda t, u, i: i, props=["C11"])(dval_prefix)

    def lval_prefix(t, u, i):
        if i > 0:
            lval_prefix(t, u, i - 1)
        return implies(0 <= i and i <= len(t), lval_upto(B, t + u, i) == lval_upto(B, t, i))
    lval_prefix.__name__ = "lval_prefix" + sfx
    lval_prefix = lemma(sig=dict(t=Bytes(), u=Bytes(), i=Int(0)), induct=lambda t, u, i: i, props=["C11"])(lval_prefix)

    def lval_shift(c, y, i):
        """prepending a least significant digit: lval([c] + y, i + 1) == D(c) + B * lval(y, i)"""
        if i > 0:
            lval_shift(c, y, i - 1)
        return implies(0 <= i and i <= len(y), lval_upto(B, bytes([c]) + y, i + 1) == digit_of(B, c) + B * lval_upto(B, y, i))
    lval_shift.__name__ = "lval_shift" + sfx
    lval_shift = lemma(sig=dict(c=Int(0, 255), y=Bytes(), i=Int(0)), induct=lambda c, y, i: i, props=["C11"])(lval_shift)
    def digit_char(d):
        """the digit of the character of a digit is that digit (the two tables are inverse on 0..B-1)"""
        unfold(digit_of, B, char_of(B, d))
        unfold(char_of, B, d)
        return implies(0 <= d and d < B, digit_of(B, char_of(B, d)) == d and 0 <= char_of(B, d) and char_of(B, d) < 256)
    digit_char.__name__ = "digit_char" + sfx
    digit_char = lemma(sig=dict(d=Int(0, B - 1)), props=["C11"])(digit_char)

    def dval_rev(x):
        """big-endian value of the reversal == little-endian value"""
        if len(x) > 0:
            y = x[1:]
            dval_rev(y)
            dval_prefix(seq_reverse(y), x[:1], len(y))
            lval_shift(x[0], y, len(y))
        return dval_upto(B, seq_reverse(x), len(x)) == lval_upto(B, x, len(x))
    dval_rev.__name__ = "dval_rev" + sfx
    dval_rev = lemma(sig=dict(x=Bytes()), induct=lambda x: len(x), props=["C11"])(dval_rev)

    def lval_lsd(v):
        """the least-significant-first digit string of v has value v"""
        if v > 0:
            lval_lsd(v // B)
            digit_char(v % B)
            lval_shift(char_of(B, v % B), lsd_chars(B, v // B), len(lsd_chars(B, v // B)))
        return lval_upto(B, lsd_chars(B, v), len(lsd_chars(B, v))) == v
    lval_lsd.__name__ = "lval_lsd" + sfx
    lval_lsd = lemma(sig=dict(v=Int(0)), induct=lambda v: v, props=["C11"])(lval_lsd)

    def lval_pad(x, z):
        """zero digits behind the most significant end do not change the value"""
        if z > 0:
            lval_pad(x, z - 1)
            digit_char(0)
            lval_prefix(x + repeat_byte(char_of(B, 0), z - 1), bytes([char_of(B, 0)]), len(x) + z - 1)
        return lval_upto(B, x + repeat_byte(char_of(B, 0), z), len(x) + z) == lval_upto(B, x, len(x))
    lval_pad.__name__ = "lval_pad" + sfx
    lval_pad = lemma(sig=dict(x=Bytes(), z=Int(0)), induct=lambda x, z: z, props=["C11"])(lval_pad)

    def positional_value(v, z):
        """the text of v behind z zero digits has value v"""
        x = lsd_chars(B, v)
        dval_rev(x + repeat_byte(char_of(B, 0), z))
        lval_pad(x, z)
        lval_lsd(v)
        t = positional(B, v, z)
        return dval_upto(B, t, len(t)) == v
    positional_value.__name__ = "positional_value" + sfx
    positional_value = lemma(sig=dict(v=Int(0), z=Int(0)), props=["C11"])(positional_value)
    # ---- every character of the positional text is a digit
    def ok_prefix(t, u, i):
        if i > 0:
            ok_prefix(t, u, i - 1)
        return implies(0 <= i and i <= len(t), digits_ok_upto(B, t + u, i) == digits_ok_upto(B, t, i))
    ok_prefix.__name__ = "ok_prefix" + sfx
    ok_prefix = lemma(sig=dict(t=Bytes(), u=Bytes(), i=Int(0)), induct=lambda t, u, i: i, props=["C11"])(ok_prefix)

    def ok_shift(c, y, i):
        if i > 0:
            ok_shift(c, y, i - 1)
        return implies(0 <= i and i <= len(y), digits_ok_upto(B, bytes([c]) + y, i + 1)
                       == (digit_of(B, c) >= 0 and digit_of(B, c) < B and digits_ok_upto(B, y, i)))
    ok_shift.__name__ = "ok_shift" + sfx
    ok_shift = lemma(sig=dict(c=Int(0, 255), y=Bytes(), i=Int(0)), induct=lambda c, y, i: i, props=["C11"])(ok_shift)

    def ok_rev(x):
        if len(x) > 0:
            y = x[1:]
            ok_rev(y)
            ok_prefix(seq_reverse(y), x[:1], len(y))
            ok_shift(x[0], y, len(y))
        return digits_ok_upto(B, seq_reverse(x), len(x)) == digits_ok_upto(B, x, len(x))
    ok_rev.__name__ = "ok_rev" + sfx
    ok_rev = lemma(sig=dict(x=Bytes()), induct=lambda x: len(x), props=["C11"])(ok_rev)

    def ok_lsd(v):
        if v > 0:
            ok_lsd(v // B)
            digit_char(v % B)
            ok_shift(char_of(B, v % B), lsd_chars(B, v // B), len(lsd_chars(B, v // B)))
        return digits_ok_upto(B, lsd_chars(B, v), len(lsd_chars(B, v)))
    ok_lsd.__name__ = "ok_lsd" + sfx
    ok_lsd = lemma(sig=dict(v=Int(0)), induct=lambda v: v, props=["C11"])(ok_lsd)

    def ok_pad(x, z):
        if z > 0:
            ok_pad(x, z - 1)
            digit_char(0)
            ok_prefix(x + repeat_byte(char_of(B, 0), z - 1), bytes([char_of(B, 0)]), len(x) + z - 1)
        return digits_ok_upto(B, x + repeat_byte(char_of(B, 0), z), len(x) + z) == digits_ok_upto(B, x, len(x))
    ok_pad.__name__ = "ok_pad" + sfx
    ok_pad = lemma(sig=dict(x=Bytes(), z=Int(0)), induct=lambda x, z: z, props=["C11"])(ok_pad)

    def positional_ok(v, z):
        x = lsd_chars(B, v)
        ok_rev(x + repeat_byte(char_of(B, 0), z))
        ok_pad(x, z)
        ok_lsd(v)
        t = positional(B, v, z)
        return digits_ok_upto(B, t, len(t))
    positional_ok.__name__ = "positional_ok" + sfx
    positional_ok = lemma(sig=dict(v=Int(0), z=Int(0)), props=["C11"])(positional_ok)

    def ok_at(t, n, i):
        """digits up to n: each of them is one"""
        if i < n - 1:
            ok_at(t, n - 1, i)
        return implies(digits_ok_upto(B, t, n) and 0 <= i and i < n and n <= len(t), 0 <= digit_of(B, t[i]) and digit_of(B, t[i]) < B)
    ok_at.__name__ = "ok_at" + sfx
    ok_at = lemma(sig=dict(t=Bytes(), n=Int(0), i=Int(0)), induct=lambda t, n, i: n, props=["C11"])(ok_at)
    # ---- the number of leading zero digits of the positional text
    def rev_index(x, i):
        """element i of the reversal is element len-1-i"""
        if len(x) > 0 and i < len(x) - 1:
            rev_index(x[1:], i)
        return implies(0 <= i and i < len(x), seq_reverse(x)[i] == x[len(x) - 1 - i])
    rev_index.__name__ = "rev_index" + sfx
    rev_index = lemma(sig=dict(x=Bytes(), i=Int(0)), induct=lambda x, i: len(x), props=["C11"])(rev_index)

    def rep_elem(c, n, i):
        if n > 0 and i < n - 1:
            rep_elem(c, n - 1, i)
        return implies(0 <= i and i < n, repeat_byte(c, n)[i] == c)
    rep_elem.__name__ = "rep_elem" + sfx
    rep_elem = lemma(sig=dict(c=Int(0, 255), n=Int(0), i=Int(0)), induct=lambda c, n, i: n, props=["C11"])(rep_elem)

    def lsd_msd(v):
        """the most significant digit of a positive number is not zero"""
        if v >= B:
            lsd_msd(v // B)
        digit_char(v % B)
        d = lsd_chars(B, v)
        return implies(v > 0, len(d) >= 1 and digit_of(B, d[len(d) - 1]) > 0)
    lsd_msd.__name__ = "lsd_msd" + sfx
    lsd_msd = lemma(sig=dict(v=Int(0)), induct=lambda v: v, props=["C11"])(lsd_msd)

    def pos_char(v, z, i):
        """character i of the positional text: a zero digit for i < z, then the most significant digit of v"""
        x = lsd_chars(B, v)
        n = len(x) + z
        rev_index(x + repeat_byte(char_of(B, 0), z), i)
        rep_elem(char_of(B, 0), z, n - 1 - i - len(x))
        digit_char(0)
        lsd_msd(v)
        t = positional(B, v, z)
        return (len(t) == n, implies(0 <= i and i < z, t[i] == char_of(B, 0) and digit_of(B, t[i]) == 0),
                implies(i == z and v > 0, digit_of(B, t[i]) > 0))
    pos_char.__name__ = "pos_char" + sfx
    pos_char = lemma(sig=dict(v=Int(0), z=Int(0), i=Int(0)), props=["C11"])(pos_char)

    def pos_prefix_zero(v, z, i):
        """the first z characters are zero digits: prefixes up to there have value zero and are all counted"""
        if i > 0:
            pos_prefix_zero(v, z, i - 1)
            pos_char(v, z, i - 1)
        t = positional(B, v, z)
        return implies(0 <= i and i <= z, dval_upto(B, t, i) == 0 and zpre_upto(B, t, i) == i)
    pos_prefix_zero.__name__ = "pos_prefix_zero" + sfx
    pos_prefix_zero = lemma(sig=dict(v=Int(0), z=Int(0), i=Int(0)), induct=lambda v, z, i: i, props=["C11"])(pos_prefix_zero)

    def pos_prefix_pos(v, z, i):
        """behind the zero digits the value is positive and no further prefix is counted"""
        t = positional(B, v, z)
        if i > z + 1:
            pos_prefix_pos(v, z, i - 1)
        pos_prefix_zero(v, z, z)
        pos_char(v, z, z)
        positional_ok(v, z)
        ok_at(t, len(t), i - 1)
        return implies(v > 0 and z < i and i <= len(t), dval_upto(B, t, i) > 0 and zpre_upto(B, t, i) == z)
    pos_prefix_pos.__name__ = "pos_prefix_pos" + sfx
    pos_prefix_pos = lemma(sig=dict(v=Int(0), z=Int(0), i=Int(0)), induct=lambda v, z, i: i, props=["C11"])(pos_prefix_pos)

    def positional_zeros(v, z):
        """the positional text of v behind z zero digits has exactly z leading zero digits"""
        t = positional(B, v, z)
        pos_prefix_zero(v, z, z)
        pos_prefix_pos(v, z, len(t))
        pos_char(v, z, 0)
        lsd_msd(v)
        return zpre_upto(B, t, len(t)) == z
    positional_zeros.__name__ = "positional_zeros" + sfx
    positional_zeros = lemma(sig=dict(v=Int(0), z=Int(0)), props=["C11"])(positional_zeros)
    return dict(dval_prefix=dval_prefix, lval_prefix=lval_prefix, lval_shift=lval_shift, digit_char=digit_char, dval_rev=dval_rev,
                lval_lsd=lval_lsd, lval_pad=lval_pad, positional_value=positional_value, ok_prefix=ok_prefix, ok_shift=ok_shift,
                ok_rev=ok_rev, ok_lsd=ok_lsd, ok_pad=ok_pad, positional_ok=positional_ok, ok_at=ok_at, rev_index=rev_index,
                rep_elem=rep_elem, lsd_msd=lsd_msd, pos_char=pos_char, pos_prefix_zero=pos_prefix_zero, pos_prefix_pos=pos_prefix_pos,
                positional_zeros=positional_zeros)


L58 = _base_lemmas(58)
L256 = _base_lemmas(256)


# ---------------------------------------------------------------- a byte string is the positional text (base 256) of its value
BS = Bytes()


@lemma(sig=dict(s=BS, i=Int(0)), induct=lambda s, i: i, props=["C11"])
def dval256_nonneg(s, i):
    if i > 0:
        dval256_nonneg(s, i - 1)
    unfold(digit_of, 256, s[i - 1])
    return implies(0 <= i and i <= len(s), dval_upto(256, s, i) >= 0)


@lemma(sig=dict(t=BS, u=BS, i=Int(0)), induct=lambda t, u, i: i, props=["C11"])
def zpre_prefix256(t, u, i):
    if i > 0:
        zpre_prefix256(t, u, i - 1)
        L256['dval_prefix'](t, u, i)
    return implies(0 <= i and i <= len(t), zpre_upto(256, t + u, i) == zpre_upto(256, t, i))


@lemma(sig=dict(s=BS, n=Int(0)), induct=lambda s, n: n, props=["C11"])
def zeros_string(s, n):
    """a prefix of value zero consists of zero bytes, and every one of its prefixes is counted as a leading zero"""
    if n > 0:
        zeros_string(s, n - 1)
        dval256_nonneg(s, n - 1)
    unfold(digit_of, 256, s[n - 1])
    return implies(0 <= n and n <= len(s) and dval_upto(256, s, n) == 0, s[:n] == repeat_byte(0, n) and zpre_upto(256, s, n) == n)


@lemma(sig=dict(n=Int(0)), props=["C11"])
def rev_zeros(n):
    """a run of zero bytes reads the same backwards (through its value, not through word equations)"""
    r = seq_reverse(repeat_byte(0, n))
    L256['dval_rev'](repeat_byte(0, n))
    L256['lval_pad'](b"", n)
    unfold(char_of, 256, 0)
    zeros_string(r, n)
    return r == repeat_byte(0, n)


@lemma(sig=dict(c=Int(0, 255), y=BS), props=["C11"])
def rev_cons(c, y):
    """reverse([c] + y) == reverse(y) + [c]  (one unfolding of the definition)"""
    return seq_reverse(bytes([c]) + y) == seq_reverse(y) + bytes([c])


@lemma(sig=dict(s=BS), props=["C11"])
def round256_zero(s):
    """a string of value zero is the positional text of (0, its length)"""
    n = len(s)
    zeros_string(s, n)
    rev_zeros(n)
    unfold(char_of, 256, 0)
    unfold(lsd_chars, 256, 0)
    return implies(dval_upto(256, s, n) == 0, positional(256, 0, zpre_upto(256, s, n)) == s)


@lemma(sig=dict(s=BS), induct=lambda s: len(s), props=["C11"])
def round256(s):
    """s == positional text in base 256 of (its value, its number of leading zero bytes)"""
    n = len(s)
    v = dval_upto(256, s, n)
    z = zpre_upto(256, s, n)
    round256_zero(s)
    if n > 0:
        t = s[:n - 1]
        c = s[n - 1]
        round256(t)
        L256['dval_prefix'](t, s[n - 1:], n - 1)
        zpre_prefix256(t, s[n - 1:], n - 1)
        dval256_nonneg(s, n - 1)
        unfold(digit_of, 256, c)
        unfold(char_of, 256, v % 256)
        unfold(char_of, 256, 0)
        rev_cons(c, lsd_chars(256, v // 256) + repeat_byte(0, z))
    return positional(256, v, z) == s


@lemma(sig=dict(c=Int(0, 255)), props=["C11"])
def digit_ascii58(c):
    """only ASCII characters are Base58 digits"""
    unfold(digit_of, 58, c)
    return implies(digit_of(58, c) >= 0, 0 <= c and c < 128)


@lemma(sig=dict(t=BS, i=Int(0)), induct=lambda t, i: i, props=["C11"])
def ok_ascii58(t, i):
    if i > 0:
        ok_ascii58(t, i - 1)
        digit_ascii58(t[i - 1])
    return implies(0 <= i and i <= len(t) and digits_ok_upto(58, t, i), ascii_upto(t, i))


@lemma(sig=dict(s=BS), props=["C11"])
def base58_roundtrip_spec(s):
    """at the level of the definitions: the Base58 text of s consists of digits, is ASCII, and denotes s"""
    n = len(s)
    v = dval_upto(256, s, n)
    z = zpre_upto(256, s, n)
    dval256_nonneg(s, n)
    t = positional(58, v, z)
    L58['positional_value'](v, z)
    L58['positional_ok'](v, z)
    L58['positional_zeros'](v, z)
    ok_ascii58(t, len(t))
    round256(s)
    return (digits_ok_upto(58, t, len(t)), ascii_upto(t, len(t)),
            positional(256, dval_upto(58, t, len(t)), zpre_upto(58, t, len(t))) == s)
