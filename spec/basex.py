"""Positional notation in base 256 / base 58 as used by pycoin.encoding.base_conversion and b58 (C11).

A digit string is a byte string; `digit_of(b, c)` is the digit a character stands for (-1: not a digit), `char_of(b, d)`
the character of a digit.  Values are big-endian (first character most significant).  The *leading-zero count* is the
number of non-empty prefixes whose value is 0, which is how to_long counts them."""
from pyvc.api import spec, implies, lemma, axiom, Int, Bytes
from spec.core import *

B58 = b"123456789ABCDEFGHJKLMNPQRSTUVWXYZabcdefghijkmnopqrstuvwxyz"
B58_INDEX = dict((c, i) for i, c in enumerate(B58))


@spec
def digit_of(b, c):
    if b == 256:
        return c
    return B58_INDEX.get(c, -1)


@spec
def char_of(b, d):
    if b == 256:
        return d
    return B58[d]


@spec(rec=True, args=['int', 'bytes', 'int'], ret='int')
def dval_upto(b, s, i):
    """value of the first i characters of s read as base-b digits"""
    if i <= 0:
        return 0
    return dval_upto(b, s, i - 1) * b + digit_of(b, s[i - 1])


@spec(rec=True, args=['int', 'bytes', 'int'], ret='int', post=lambda b, s, i, result: result >= 0)
def zpre_upto(b, s, i):
    """number of non-empty prefixes of s[:i] with value zero (= number of leading zero digits)"""
    if i <= 0:
        return 0
    return zpre_upto(b, s, i - 1) + (1 if dval_upto(b, s, i) == 0 else 0)


@spec(rec=True, args=['int', 'bytes', 'int'], ret='bool')
def digits_ok_upto(b, s, i):
    """each of the first i characters is a digit of base b"""
    if i <= 0:
        return True
    return digits_ok_upto(b, s, i - 1) and digit_of(b, s[i - 1]) >= 0 and digit_of(b, s[i - 1]) < b


@spec(rec=True, args=['int', 'int'], ret='bytes')
def lsd_chars(b, v):
    """characters of the base-b digits of v >= 0, least significant first (empty for 0)"""
    if v <= 0:
        return b""
    return bytes([char_of(b, v % b)]) + lsd_chars(b, v // b)


@spec
def positional(b, v, zeros):
    """text of v in base b behind `zeros` zero digits, most significant first: the reversal of the digits written
    least significant first and followed by the zero digits"""
    return seq_reverse(lsd_chars(b, v) + repeat_byte(char_of(b, 0), zeros))


@spec(rec=True, args=['bytes', 'int'], ret='bool')
def ascii_upto(s, i):
    if i <= 0:
        return True
    return ascii_upto(s, i - 1) and 0 <= s[i - 1] and s[i - 1] < 128


# ---------------------------------------------------------------- lemmas
@lemma(sig=dict(b=Int(2), s=Bytes(), n=Int(0), i=Int(0)), induct=lambda b, s, n, i: n, props=["C11"])
def digits_ok_prefix(b, s, n, i):
    """digits up to n are digits up to every i <= n"""
    if i < n:
        digits_ok_prefix(b, s, n - 1, i)
    return implies(digits_ok_upto(b, s, n) and 0 <= i and i <= n, digits_ok_upto(b, s, i))
