"""Abstract group vocabulary for specifications (C01, C02, C09, C10, C17) and the generator builder."""
import hashlib
import hmac as _hmac
import z3
from pyvc.api import spec, implies, lemma, Int, Bytes, Builder, Const
from pyvc.values import SV, lift, fresh, simp
from pyvc import group as G_
from spec.core import *


def _sp(name, arity):
    def special(ip, *args):
        f = G_.F()[name]
        zs = []
        for a in args:
            if G_.pt_of(ip, a) is not None:
                zs.append(G_.pt_of(ip, a).e)
            else:
                zs.append(lift(a, 'int').e)
        r = f(*zs)
        kind = G_.K_PT if r.sort() == G_.Pt() else ('bool' if z3.is_bool(r) else 'int')
        return SV(r, kind)
    return special


def _native_only(*a):
    raise NotImplementedError("abstract group function has no native meaning; native replay uses the real curve")


smul = spec(special=_sp('smul', 2), name='smul')(lambda k, P: _native_mul(k, P))
padd = spec(special=_sp('padd', 2), name='padd')(lambda P, Q: P + Q)
pneg = spec(special=_sp('pneg', 1), name='pneg')(lambda P: -P)
mkpt = spec(special=_sp('mkpt', 2), name='mkpt')(lambda x, y: _native_generator().Point(x, y))
xc = spec(special=_sp('xc', 1), name='xc')(lambda P: P[0])
yc = spec(special=_sp('yc', 1), name='yc')(lambda P: P[1])
oncurve = spec(special=_sp('oncurve', 2), name='oncurve')(lambda x, y: _native_generator().contains_point(x, y))
inv_mod = spec(special=_sp('inv_mod', 2), name='inv_mod')(lambda a, m: pow(a, -1, m))


def _native_generator():
    from pycoin.ecdsa.secp256k1 import secp256k1_generator
    return secp256k1_generator


def _native_mul(k, P):
    return k * P


def _sp_inf(ip):
    return SV(G_.F()['INF'], G_.K_PT)


def _sp_g(ip):
    return SV(G_.F()['G'], G_.K_PT)


@spec(special=_sp_inf)
def INF():
    return _native_generator().infinity()


@spec(special=_sp_g)
def GPT():
    return _native_generator()


def _sp_hmac512(ip, key, msg):
    from pyvc.builtins_model import hmac_fn
    return hmac_fn(ip, 'sha512', key, msg)


@spec(special=_sp_hmac512)
def hmac512(key, msg):
    return _hmac.new(key, msg, hashlib.sha512).digest()


def _sp_hmac256(ip, key, msg):
    from pyvc.builtins_model import hmac_fn
    return hmac_fn(ip, 'sha256', key, msg)


@spec(special=_sp_hmac256)
def hmac256(key, msg):
    return _hmac.new(key, msg, hashlib.sha256).digest()


class AbsGenerator(Builder):
    no_pickle = True
    """an abstract generator object: an instance of the real Generator class whose group operations are the
    uninterpreted functions of pyvc.group; its order n and field modulus p are symbolic primes (n, p >= 3, p = 3 mod 4)"""

    def __init__(self, cls=None, concrete=None, table=False, p=None, n=None):
        from pycoin.ecdsa.Generator import Generator
        self.cls = cls or Generator
        self.concrete = concrete      # native generator used for sampling / replay (default secp256k1)
        self.table = table            # also model the fields set up by Generator.__init__ for raw_mul / __mul__
        self.p_value, self.n_value = p, n     # concrete field modulus / order (group operations stay abstract)

    def symbolic(self, ip, name):
        st = ip.st
        n = fresh(name + "_order", 'int') if self.n_value is None else SV(z3.IntVal(self.n_value), 'int')
        p = fresh(name + "_p", 'int') if self.p_value is None else SV(z3.IntVal(self.p_value), 'int')
        st.assume(z3.And(n.e >= 3, p.e >= 3, n.e % 2 == 1, p.e % 4 == 3))
        # the quantifier of C01/C02: a group of prime order over a prime field (is_prime is uninterpreted: spec/numth.py)
        isp = z3.Function('is_prime', z3.IntSort(), z3.BoolSort())
        st.assume(z3.And(isp(n.e), isp(p.e)))
        st.ghost['group_p'] = p
        st.ghost['group_n'] = n
        f = G_.F()
        fields = {'_order': n if self.n_value is None else self.n_value, '_p': p if self.p_value is None else self.p_value, '_a': fresh(name + "_a", 'int'), '_b': fresh(name + "_b", 'int'),
                  '_infinity': SV(f['INF'], G_.K_PT), '_pt': SV(f['G'], G_.K_PT)}
        st.assume(f['G'] != f['INF'])
        if self.table:
            # arbitrary table, blinding factor and blinding point: what Generator.__init__ establishes about them is a
            # precondition of the units that read them
            ps = fresh(name + "_powers", ('seq', G_.K_PT))
            st.assume(z3.Length(ps.e) < 2 ** 62)
            fields['_powers'] = st.alloc({'k': 'list', 'seq': ps})
            bf = fresh(name + "_blinding_factor", 'int')
            st.assume(bf.e >= 0)
            fields['_blinding_factor'] = bf
            fields['_minus_blinding_factor_g'] = fresh(name + "_minus_bf_g", G_.K_PT)
        return st.alloc({'k': 'obj', 'cls': self.cls, 'f': fields})

    def sample(self, rng):
        return self.concrete or _native_generator()

    def to_engine(self, ip, native):
        return native

    def from_model(self, ip, model, value):
        return self.concrete or _native_generator()


class APoint(Builder):
    """an abstract curve point (possibly the point at infinity unless finite=True)"""
    kind = G_.K_PT

    def __init__(self, finite=False):
        self.finite = finite

    def symbolic(self, ip, name):
        v = fresh(name, G_.K_PT)
        if self.finite:
            ip.st.assume(v.e != G_.F()['INF'])
        return v

    def sample(self, rng):
        g = _native_generator()
        return g * rng.randrange(1, g.order())

    def to_engine(self, ip, native):
        return native

    def from_model(self, ip, model, value):
        return _native_generator() * 7


def _sp_haspoint(ip, x):
    f = z3.Function('has_point_x', z3.IntSort(), z3.BoolSort())
    return SV(f(lift(x, 'int').e), 'bool')


@spec(special=_sp_haspoint)
def has_point_x(x):
    g = _native_generator()
    try:
        g.points_for_x(x)
        return True
    except ValueError:
        return False


INF._symbolic_only = True
GPT._symbolic_only = True


def _sp_b64text(ip, data):
    from pyvc.builtins_model import b64_encode_sv
    return SV(b64_encode_sv(ip, data), 'str')


@spec(special=_sp_b64text)
def b64text(data):
    """base64 text of data, without line break"""
    import binascii
    return binascii.b2a_base64(data).strip().decode("ascii")


def _sp_b64dec(ip, text):
    import z3 as _z3
    from pyvc.builtins_model import _b64_fns
    return SV(_b64_fns()[1](lift(text).e), 'bytes')


@spec(special=_sp_b64dec)
def b64dec(text):
    import binascii
    return binascii.a2b_base64(text)


def _sp_b64ok(ip, text):
    from pyvc.builtins_model import _b64_fns
    return SV(_b64_fns()[2](lift(text).e), 'bool')


@spec(special=_sp_b64ok)
def b64_ok(text):
    import binascii
    try:
        binascii.a2b_base64(text)
        return True
    except ValueError:
        return False
