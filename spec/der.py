"""DER signature encoding as executable specification (C10, C05, C03)."""
from pyvc.api import spec, implies, lemma, Int, Bytes
from spec.core import *
from spec.scriptnum import be_min_bytes, be_value


@spec
def der_int_body(r):
    """content octets of the DER INTEGER r >= 0: minimal big-endian two's complement"""
    m = be_min_bytes(r)
    return (b"\x00" + m) if m[0] >= 128 else m


@spec(opaque=True, args=['int'], ret='bytes')
def der_int(r):
    """DER INTEGER with short-form length (r < 2**1008)"""
    body = der_int_body(r)
    return b"\x02" + bytes([len(body)]) + body


@spec
def der_sig(r, s):
    """DER SEQUENCE of the two INTEGERs, short-form length (r, s < 2**256 gives at most 70 content octets)"""
    content = der_int(r) + der_int(s)
    return b"\x30" + bytes([len(content)]) + content
