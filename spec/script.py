"""Script-level specifications: instruction decoding (Core's GetScriptOp), minimal pushes (CheckMinimalPush)."""
from pyvc.api import spec, implies, lemma, Int, Bytes
from spec.core import *

OP_0, OP_PUSHDATA1, OP_PUSHDATA2, OP_PUSHDATA4, OP_1NEGATE, OP_1, OP_16 = 0, 76, 77, 78, 79, 81, 96


@spec
def push_minimal(d):
    """the unique minimal push of d (BIP62 rule 3 / Core's CheckMinimalPush), for len(d) < 2**32"""
    n = len(d)
    if n == 0:
        return bytes([OP_0])
    if n == 1 and 1 <= d[0] and d[0] <= 16:
        return bytes([OP_1 + d[0] - 1])
    if n == 1 and d[0] == 0x81:
        return bytes([OP_1NEGATE])
    if n <= 75:
        return bytes([n]) + d
    if n <= 255:
        return bytes([OP_PUSHDATA1]) + le(n, 1) + d
    if n <= 65535:
        return bytes([OP_PUSHDATA2]) + le(n, 2) + d
    return bytes([OP_PUSHDATA4]) + le(n, 4) + d


@spec
def op_lenbytes(op):
    """number of length bytes following a push opcode"""
    if op == OP_PUSHDATA1:
        return 1
    if op == OP_PUSHDATA2:
        return 2
    if op == OP_PUSHDATA4:
        return 4
    return 0


@spec
def op_is_push_with_data(op):
    return 1 <= op and op <= OP_PUSHDATA4


@spec
def op_data_size(script, pc):
    """size announced by the push at script[pc] (requires the length bytes to be present)"""
    op = script[pc]
    if op <= 75:
        return op
    if op == OP_PUSHDATA1:
        return script[pc + 1]
    if op == OP_PUSHDATA2:
        return le_int(script[pc + 1:pc + 3], 2)
    return le_int(script[pc + 1:pc + 5], 4)


@spec
def decode_ok(script, pc):
    """GetScriptOp succeeds at pc (0 <= pc < len(script))"""
    op = script[pc]
    if not op_is_push_with_data(op):
        return True
    if pc + 1 + op_lenbytes(op) > len(script):
        return False
    return pc + 1 + op_lenbytes(op) + op_data_size(script, pc) <= len(script)


@spec
def decode_newpc(script, pc):
    op = script[pc]
    if not op_is_push_with_data(op):
        return pc + 1
    return pc + 1 + op_lenbytes(op) + op_data_size(script, pc)


@spec
def small_int_data(op):
    """data pushed by OP_0, OP_1NEGATE, OP_1..OP_16 (script-number encoding of the constant)"""
    if op == OP_0:
        return b""
    if op == OP_1NEGATE:
        return b"\x81"
    if OP_1 <= op and op <= OP_16:
        return bytes([op - OP_1 + 1])
    return b""


@spec
def op_is_const_push(op):
    return op == OP_0 or op == OP_1NEGATE or (OP_1 <= op and op <= OP_16)


@spec
def decode_data(script, pc):
    """data of the push at pc (requires decode_ok and the opcode to be a push with data)"""
    start = pc + 1 + op_lenbytes(script[pc])
    return script[start:start + op_data_size(script, pc)]


@spec
def check_minimal_push(data, op):
    """Core's CheckMinimalPush for a push opcode op (0 <= op <= OP_PUSHDATA4) that pushed data"""
    n = len(data)
    if n == 0:
        return op == OP_0
    if n == 1 and 1 <= data[0] and data[0] <= 16:
        return False
    if n == 1 and data[0] == 0x81:
        return False
    if n <= 75:
        return op == n
    if n <= 255:
        return op == OP_PUSHDATA1
    if n <= 65535:
        return op == OP_PUSHDATA2
    return True
