"""Script-number codec specifications (C12, C03)."""
from pyvc.api import spec, implies, lemma, Int, Bytes, unfold
from spec.core import *


@spec(rec=True, args=['int'], ret='bytes', fuel=2,
      post=lambda v, result: (implies(v <= 0, len(result) == 0), implies(v > 0, len(result) >= 1)))
def le_digits(v):
    """minimal little-endian base-256 digits of v >= 0 (empty for 0)"""
    if v <= 0:
        return b""
    return bytes([v % 256]) + le_digits(v // 256)


@spec(rec=True, args=['bytes'], ret='int', post=lambda s, result: result >= 0)
def le_value(s):
    """value of a little-endian byte string"""
    if len(s) == 0:
        return 0
    return s[0] + 256 * le_value(s[1:])


@spec(rec=True, args=['bytes'], ret='int', post=lambda s, result: result >= 0)
def be_value(s):
    """value of a big-endian byte string (snoc recursion)"""
    if len(s) == 0:
        return 0
    return be_value(s[:len(s) - 1]) * 256 + s[len(s) - 1]


@spec(opaque=True, args=['int'], ret='bytes')
def scriptnum_enc(v):
    """Bitcoin CScriptNum serialisation: minimal little-endian sign-magnitude"""
    if v == 0:
        return b""
    d = le_digits(abs(v))
    last = d[len(d) - 1]
    if last >= 128:
        return d + (b"\x80" if v < 0 else b"\x00")
    if v < 0:
        return d[:len(d) - 1] + bytes([last + 128])
    return d


@spec(opaque=True, args=['bytes'], ret='int')
def scriptnum_dec(s):
    """CScriptNum deserialisation (any length): little-endian magnitude, top bit of last byte = sign"""
    if len(s) == 0:
        return 0
    last = s[len(s) - 1]
    mag = le_value(s[:len(s) - 1] + bytes([last % 128]))
    if last >= 128:
        return -mag
    return mag


@spec(opaque=True, args=['bytes'], ret='bool')
def is_minimal_num(s):
    """Core's minimal-encoding rule for script numbers"""
    if len(s) == 0:
        return True
    last = s[len(s) - 1]
    if last % 128 != 0:
        return True
    if len(s) == 1:
        return False
    return s[len(s) - 2] >= 128


@lemma(sig=dict(t=Bytes()), induct=lambda t: len(t))
def be_rev(t):
    """big-endian value of the reversed string is the little-endian value"""
    if len(t) > 0:
        be_rev(t[1:])
    return be_value(seq_reverse(t)) == le_value(t)
