"""Script-number codec specifications (C12, C03)."""
from pyvc.api import spec, implies, lemma, Int, Bytes, unfold
from spec.core import *


@spec(rec=True, args=['int'], ret='bytes', fuel=2,
      post=lambda v, result: (implies(v <= 0, len(result) == 0), implies(v > 0, len(result) >= 1)))
def le_digits(v):
    """minimal little-endian base-256 digits of v >= 0 (empty for 0)"""
    if v <= 0:
        return b""
    return bytes([v % 256]) + le_digits(v // 256)


@spec(rec=True, args=['bytes'], ret='int', post=lambda s, result: result >= 0)
def le_value(s):
    """value of a little-endian byte string"""
    if len(s) == 0:
        return 0
    return s[0] + 256 * le_value(s[1:])


@spec(rec=True, args=['bytes'], ret='int', fuel=2, post=lambda s, result: result >= 0)
def be_value(s):
    """value of a big-endian byte string (snoc recursion)"""
    if len(s) == 0:
        return 0
    return be_value(s[:len(s) - 1]) * 256 + s[len(s) - 1]


@spec(opaque=True, args=['int'], ret='bytes')
def scriptnum_enc(v):
    """Bitcoin CScriptNum serialisation: minimal little-endian sign-magnitude"""
    if v == 0:
        return b""
    d = le_digits(abs(v))
    last = d[len(d) - 1]
    if last >= 128:
        return d + (b"\x80" if v < 0 else b"\x00")
    if v < 0:
        return d[:len(d) - 1] + bytes([last + 128])
    return d


@spec(opaque=True, args=['bytes'], ret='int')
def scriptnum_dec(s):
    """CScriptNum deserialisation (any length): little-endian magnitude, top bit of last byte = sign"""
    if len(s) == 0:
        return 0
    last = s[len(s) - 1]
    mag = le_value(s[:len(s) - 1] + bytes([last % 128]))
    if last >= 128:
        return -mag
    return mag


@spec(opaque=True, args=['bytes'], ret='bool')
def is_minimal_num(s):
    """Core's minimal-encoding rule for script numbers"""
    if len(s) == 0:
        return True
    last = s[len(s) - 1]
    if last % 128 != 0:
        return True
    if len(s) == 1:
        return False
    return s[len(s) - 2] >= 128


@lemma(sig=dict(t=Bytes()), induct=lambda t: len(t))
def be_rev(t):
    """big-endian value of the reversed string is the little-endian value"""
    if len(t) > 0:
        be_rev(t[1:])
    return be_value(seq_reverse(t)) == le_value(t)


@spec(rec=True, args=['int'], ret='bytes', fuel=2, post=lambda v, result: len(result) >= 1)
def be_min_bytes(v):
    """big-endian byte string of v >= 0 without leading zero bytes (one zero byte for 0): unhexlify of the even-padded '%x' % v"""
    if v < 256:
        return bytes([v])
    return be_min_bytes(v // 256) + bytes([v % 256])


@lemma(sig=dict(v=Int(0)), induct=lambda v: v)
def be_value_of_min_bytes(v):
    if v >= 256:
        be_value_of_min_bytes(v // 256)
    return be_value(be_min_bytes(v)) == v


@lemma(sig=dict(v=Int(0)), induct=lambda v: v)
def min_bytes_no_leading_zero(v):
    """the first byte of the minimal encoding is non-zero unless v == 0"""
    if v >= 256:
        min_bytes_no_leading_zero(v // 256)
    return implies(v > 0, be_min_bytes(v)[0] > 0) and be_min_bytes(v)[0] >= 0 and be_min_bytes(v)[0] < 256


@lemma(sig=dict(m=Bytes()), induct=lambda m: len(m))
def be_value_leading_zero(m):
    if len(m) > 0:
        be_value_leading_zero(m[:len(m) - 1])
    return be_value(b"\x00" + m) == be_value(m)


@spec(rec=True, args=['int'], ret='int', post=lambda k, result: result >= 1)
def pow256(k):
    if k <= 0:
        return 1
    return 256 * pow256(k - 1)


@lemma(sig=dict(v=Int(0), k=Int(1)), requires=lambda v, k: v < pow256(k), induct=lambda v, k: k)
def min_bytes_len(v, k):
    """a number below 256**k has at most k bytes"""
    if v >= 256 and k >= 2:
        min_bytes_len(v // 256, k - 1)
    return len(be_min_bytes(v)) <= k


# ---------------------------------------------------------------- every integer decodes back to itself, from a minimal form
@lemma(sig=dict(v=Int(0)), induct=lambda v: v, props=["C12"])
def le_value_of_digits(v):
    if v > 0:
        le_value_of_digits(v // 256)
    return le_value(le_digits(v)) == v


@lemma(sig=dict(x=Bytes()), induct=lambda x: len(x), props=["C12"])
def le_value_trailing_zero(x):
    """a zero byte at the most significant end does not change a little-endian value"""
    if len(x) > 0:
        le_value_trailing_zero(x[1:])
    return le_value(x + b"\x00") == le_value(x)


@lemma(sig=dict(v=Int(0)), induct=lambda v: v, props=["C12"])
def le_digits_msb(v):
    """the most significant digit of a positive number is a non-zero byte"""
    if v >= 256:
        le_digits_msb(v // 256)
    d = le_digits(v)
    return implies(v > 0, len(d) >= 1 and d[len(d) - 1] > 0 and d[len(d) - 1] < 256)


@lemma(sig=dict(v=Int()), options={'reveal': ['scriptnum_enc', 'scriptnum_dec']}, props=["C12"])
def scriptnum_roundtrip(v):
    """decoding the encoding of any integer gives it back"""
    a = abs(v)
    d = le_digits(a)
    le_value_of_digits(a)
    le_digits_msb(a)
    le_value_trailing_zero(d)
    return scriptnum_dec(scriptnum_enc(v)) == v


@lemma(sig=dict(v=Int()), options={'reveal': ['scriptnum_enc', 'is_minimal_num']}, props=["C12"])
def scriptnum_enc_minimal(v):
    """the encoding is a minimal form (accepted under MINIMALDATA)"""
    le_digits_msb(abs(v))
    return is_minimal_num(scriptnum_enc(v))


# ---------------------------------------------------------------- the minimal form is unique
@lemma(sig=dict(x=Bytes()), induct=lambda x: len(x), props=["C12"])
def le_digits_of_value(x):
    """a little-endian digit string without a zero most significant byte is the digit string of its value"""
    if len(x) > 0:
        le_digits_of_value(x[1:])
    return implies(len(x) == 0 or x[len(x) - 1] != 0, le_digits(le_value(x)) == x and (le_value(x) > 0) == (len(x) > 0))


@lemma(sig=dict(s=Bytes()), options={'reveal': ['scriptnum_enc', 'scriptnum_dec', 'is_minimal_num']}, props=["C12"])
def scriptnum_minimal_unique(s):
    """a minimal form is the encoding of the number it denotes: no integer has two minimal forms"""
    n = len(s)
    if n > 0:
        last = s[n - 1]
        body = s[:n - 1] + bytes([last % 128])
        le_digits_of_value(body)
        le_digits_of_value(s[:n - 1])
        le_value_trailing_zero(s[:n - 1])
    return implies(is_minimal_num(s), scriptnum_enc(scriptnum_dec(s)) == s)
