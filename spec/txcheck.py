"""Core's CheckTransaction (context-free checks), as executable spec (C20)."""
from pyvc.api import spec, implies, lemma, Int, Bytes, SeqOf
from spec.core import *
from spec.wire import *

ZERO32 = b"\x00" * 32


@spec(rec=True, args=[K_TXOUTS, 'int'], ret='int')
def value_sum_upto(xs, i):
    if i <= 0:
        return 0
    return value_sum_upto(xs, i - 1) + xs[i - 1].coin_value


@spec(rec=True, args=[K_TXOUTS, 'int', 'int'], ret='bool')
def outs_ok_upto(xs, i, max_money):
    """every one of the first i values is in [0, max_money] and so is every running total"""
    if i <= 0:
        return True
    return (outs_ok_upto(xs, i - 1, max_money) and 0 <= xs[i - 1].coin_value and xs[i - 1].coin_value <= max_money
            and value_sum_upto(xs, i) <= max_money)


@spec
def outs_ok(xs, max_money):
    return outs_ok_upto(xs, len(xs), max_money)


@spec
def is_null_outpoint(t):
    """COutPoint::IsNull: zero hash and index 0xffffffff"""
    return t.previous_hash == ZERO32 and t.previous_index == 0xFFFFFFFF


@spec
def is_coinbase_tx(txs_in):
    return len(txs_in) == 1 and is_null_outpoint(txs_in[0])


@spec(rec=True, args=[K_TXINS, 'int', 'bytes', 'int'], ret='bool')
def outpoint_among(xs, i, h, n):
    """is (h, n) the outpoint of one of the first i inputs"""
    if i <= 0:
        return False
    return outpoint_among(xs, i - 1, h, n) or (xs[i - 1].previous_hash == h and xs[i - 1].previous_index == n)


@spec(rec=True, args=[K_TXINS, 'int'], ret='bool')
def has_duplicate_outpoint(xs, i):
    """two of the first i inputs spend the same outpoint"""
    if i <= 1:
        return False
    return has_duplicate_outpoint(xs, i - 1) or outpoint_among(xs, i - 1, xs[i - 1].previous_hash, xs[i - 1].previous_index)


@spec(rec=True, args=[K_TXINS, 'int'], ret='bool')
def has_null_outpoint(xs, i):
    if i <= 0:
        return False
    return has_null_outpoint(xs, i - 1) or is_null_outpoint(xs[i - 1])


@spec
def txs_in_bad(xs):
    """CheckTransaction's input rules: duplicate outpoints; coinbase script size; null prevout in a non-coinbase"""
    if has_duplicate_outpoint(xs, len(xs)):
        return True
    if is_coinbase_tx(xs):
        return len(xs[0].script) < 2 or len(xs[0].script) > 100
    return has_null_outpoint(xs, len(xs))


MAX_TX_SIZE = 1000000


@spec
def check_transaction_rejects(version, txs_in, txs_out, lock_time, max_money):
    """what Tx.check implements: Core's CheckTransaction with the size rule applied to the full serialisation
    (so: every tx whose stripped size exceeds 1,000,000 is rejected, every tx whose total size is at most 1,000,000
    and has no other defect is accepted)"""
    return (len(txs_out) == 0 or len(txs_in) == 0 or not outs_ok(txs_out, max_money) or txs_in_bad(txs_in)
            or len(ser_tx(version, txs_in, txs_out, lock_time, False, any_witness(txs_in))) > MAX_TX_SIZE)


# ---------------------------------------------------------------- vocabulary for the proof of Tx._check_txs_in
K_PAIR = ('tup', ('bytes', 'int'))
K_PAIRS = ('seq', K_PAIR)


@spec(rec=True, args=[K_TXINS, 'int'], ret=K_PAIRS, post=lambda xs, i, result: len(result) == (i if i > 0 else 0))
def outpoints_upto(xs, i):
    """the outpoints (hash, index) of the first i inputs, in order"""
    if i <= 0:
        return ()
    return outpoints_upto(xs, i - 1) + ((xs[i - 1].previous_hash, xs[i - 1].previous_index),)


@spec(rec=True, args=[K_TXINS, 'int', ('rec', TxInT)], ret='int', post=lambda xs, i, x, result: result >= 0, name='seq_count_TxIn')
def seq_count_TxIn(xs, i, x):
    """number of the first i inputs equal (field by field) to x -- an upper bound of list.count on TxIn objects, which
    compare by identity"""
    if i <= 0:
        return 0
    return seq_count_TxIn(xs, i - 1, x) + (1 if xs[i - 1] == x else 0)
