"""Executable specification functions shared by several properties (DESIGN.md section 3)."""
from pyvc.api import spec, implies, lemma, Bytes, Int


@spec(rec=True, args=['int', 'int'], ret='bytes', post=lambda b, n, result: (implies(n >= 0, len(result) == n), implies(n <= 0, len(result) == 0)))
def repeat_byte(b, n):
    """bytes([b]) * n"""
    if n <= 0:
        return b""
    return repeat_byte(b, n - 1) + bytes([b])


@spec(rec=True, args=['int'], ret='int', post=lambda k, result: result >= 1)
def pow2(k):
    if k <= 0:
        return 1
    return 2 * pow2(k - 1)


@spec(rec=True, args=['bytes'], ret='bytes', post=lambda s, result: len(result) == len(s))
def seq_reverse(s):
    if len(s) == 0:
        return b""
    return seq_reverse(s[1:]) + s[:1]


@spec
def le(v, k):
    """k-byte little-endian encoding of 0 <= v < 256**k"""
    return v.to_bytes(k, 'little')


@spec
def compact_size(v):
    """Bitcoin CompactSize / var_int encoding of 0 <= v < 2**64"""
    if v < 253:
        return bytes([v])
    if v <= 0xFFFF:
        return b"\xfd" + le(v, 2)
    if v <= 0xFFFFFFFF:
        return b"\xfe" + le(v, 4)
    return b"\xff" + le(v, 8)


@spec
def varstr(b):
    return compact_size(len(b)) + b


@lemma(sig=dict(x=Bytes(), c=Int(0, 255)), induct=lambda x, c: len(x))
def rev_snoc(x, c):
    """reverse(x + [c]) == [c] + reverse(x)"""
    if len(x) > 0:
        rev_snoc(x[1:], c)
    return seq_reverse(x + bytes([c])) == bytes([c]) + seq_reverse(x)
