"""Executable specification functions shared by several properties (DESIGN.md section 3)."""
from pyvc.api import spec, implies, lemma, Bytes, Int


@spec(rec=True, args=['int', 'int'], ret='bytes', post=lambda b, n, result: (implies(n >= 0, len(result) == n), implies(n <= 0, len(result) == 0)))
def repeat_byte(b, n):
    """bytes([b]) * n"""
    if n <= 0:
        return b""
    return repeat_byte(b, n - 1) + bytes([b])


@spec(rec=True, args=['int'], ret='int', post=lambda k, result: result >= 1)
def pow2(k):
    if k <= 0:
        return 1
    return 2 * pow2(k - 1)


@spec(rec=True, args=['bytes'], ret='bytes', post=lambda s, result: len(result) == len(s))
def seq_reverse(s):
    if len(s) == 0:
        return b""
    return seq_reverse(s[1:]) + s[:1]


def _sp_le(ip, v, k):
    from pyvc.builtins_model import int_bytes
    return int_bytes(ip, v, k, '<')


def _sp_be(ip, v, k):
    from pyvc.builtins_model import int_bytes
    return int_bytes(ip, v, k, '>')


def _sp_le_int(ip, b, k):
    from pyvc.builtins_model import bytes_int
    return bytes_int(ip, b, k, '<')


def _sp_be_int(ip, b, k):
    from pyvc.builtins_model import bytes_int
    return bytes_int(ip, b, k, '>')


@spec(special=_sp_le)
def le(v, k):
    """k-byte little-endian encoding of 0 <= v < 256**k (same abstract function as the struct model)"""
    return v.to_bytes(k, 'little')


@spec(special=_sp_be)
def be(v, k):
    """k-byte big-endian encoding of 0 <= v < 256**k"""
    return v.to_bytes(k, 'big')


@spec(special=_sp_le_int)
def le_int(b, k):
    """unsigned value of the k-byte little-endian string b"""
    return int.from_bytes(b[:k], 'little')


@spec(special=_sp_be_int)
def be_int_k(b, k):
    return int.from_bytes(b[:k], 'big')


@spec
def cs_len(b0):
    """total length of a CompactSize whose first byte is b0"""
    if b0 < 253:
        return 1
    if b0 == 253:
        return 3
    if b0 == 254:
        return 5
    return 9


@spec
def cs_value(data, pos):
    """value of the CompactSize starting at data[pos] (any encoding, canonical or not)"""
    b0 = data[pos]
    if b0 < 253:
        return b0
    if b0 == 253:
        return le_int(data[pos + 1:pos + 3], 2)
    if b0 == 254:
        return le_int(data[pos + 1:pos + 5], 4)
    return le_int(data[pos + 1:pos + 9], 8)


@spec
def cs_ok(data, pos):
    """a complete CompactSize starts at data[pos]"""
    return pos < len(data) and pos + cs_len(data[pos]) <= len(data)


@spec(opaque=True, args=['int'], ret='bytes', post=lambda v, result: (len(result) >= 1, len(result) <= 9))
def compact_size(v):
    """Bitcoin CompactSize / var_int encoding of 0 <= v < 2**64"""
    if v < 253:
        return bytes([v])
    if v <= 0xFFFF:
        return b"\xfd" + le(v, 2)
    if v <= 0xFFFFFFFF:
        return b"\xfe" + le(v, 4)
    return b"\xff" + le(v, 8)


@spec(opaque=True, args=['bytes'], ret='bytes')
def varstr(b):
    return compact_size(len(b)) + b


@lemma(sig=dict(x=Bytes(), c=Int(0, 255)), induct=lambda x, c: len(x))
def rev_snoc(x, c):
    """reverse(x + [c]) == [c] + reverse(x)"""
    if len(x) > 0:
        rev_snoc(x[1:], c)
    return seq_reverse(x + bytes([c])) == bytes([c]) + seq_reverse(x)
