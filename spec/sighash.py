"""BIP143 signature-hash preimage (and the fork-id variants) as executable specification (C04)."""
import hashlib
from pyvc.api import spec, implies, lemma, Int, Bytes
from spec.core import *
from spec.wire import *

ZERO32 = b"\x00" * 32
SIGHASH_ALL, SIGHASH_NONE, SIGHASH_SINGLE, SIGHASH_FORKID, SIGHASH_ANYONECANPAY = 1, 2, 3, 0x40, 0x80


def _sp_sha256(ip, b):
    from pyvc.builtins_model import hash_fn
    return hash_fn(ip, 'sha256', b)


@spec(special=_sp_sha256)
def sha256(b):
    return hashlib.sha256(b).digest()


def _sp_sha1(ip, b):
    from pyvc.builtins_model import hash_fn
    return hash_fn(ip, 'sha1', b)


@spec(special=_sp_sha1)
def sha1(b):
    return hashlib.sha1(b).digest()


def _sp_ripemd160(ip, b):
    from pyvc.builtins_model import hash_fn
    return hash_fn(ip, 'ripemd160', b)


@spec(special=_sp_ripemd160)
def ripemd160(b):
    return hashlib.new('ripemd160', b).digest()


@spec
def dsha256(b):
    return sha256(sha256(b))


@spec(rec=True, args=[K_TXINS, 'int'], ret='bytes')
def ser_prevouts_upto(xs, i):
    if i <= 0:
        return b""
    return ser_prevouts_upto(xs, i - 1) + xs[i - 1].previous_hash + le(xs[i - 1].previous_index, 4)


@spec(rec=True, args=[K_TXINS, 'int'], ret='bytes')
def ser_sequences_upto(xs, i):
    if i <= 0:
        return b""
    return ser_sequences_upto(xs, i - 1) + le(xs[i - 1].sequence, 4)


@spec
def base_type(ht):
    return ht % 32


@spec
def anyone_can_pay(ht):
    return (ht // 128) % 2 == 1


@spec
def hash_prevouts(txs_in, ht, single):
    """BIP143 hashPrevouts; `single` selects single SHA256 (Groestlcoin) instead of double"""
    if anyone_can_pay(ht):
        return ZERO32
    d = ser_prevouts_upto(txs_in, len(txs_in))
    return sha256(d) if single else dsha256(d)


@spec
def hash_sequence(txs_in, ht, single):
    if anyone_can_pay(ht) or base_type(ht) == SIGHASH_SINGLE or base_type(ht) == SIGHASH_NONE:
        return ZERO32
    d = ser_sequences_upto(txs_in, len(txs_in))
    return sha256(d) if single else dsha256(d)


@spec
def hash_outputs(txs_out, ht, idx, single):
    if base_type(ht) == SIGHASH_SINGLE:
        if idx >= len(txs_out):
            return ZERO32
        d1 = ser_txout(txs_out[idx])
        return sha256(d1) if single else dsha256(d1)
    if base_type(ht) == SIGHASH_NONE:
        return ZERO32
    d = ser_txouts_upto(txs_out, len(txs_out))
    return sha256(d) if single else dsha256(d)


@spec
def bip143_preimage(version, txs_in, txs_out, lock_time, script_code, idx, amount, ht, single):
    """BIP143: nVersion | hashPrevouts | hashSequence | outpoint | scriptCode | amount | nSequence | hashOutputs | nLockTime | nHashType"""
    t = txs_in[idx]
    return (le(version, 4) + hash_prevouts(txs_in, ht, single) + hash_sequence(txs_in, ht, single)
            + t.previous_hash + le(t.previous_index, 4) + varstr(script_code) + le(amount, 8) + le(t.sequence, 4)
            + hash_outputs(txs_out, ht, idx, single) + le(lock_time, 4) + le(ht, 4))
