"""Tier B: bounded stand-ins (run-time contract checks on the real code over an enumerated/seeded space).
Always labelled bounded; never counted as proved."""
REGISTRY = {}
META = {}


def bounded(name, props, bound):
    def deco(fn):
        REGISTRY[name] = fn
        META[name] = {'props': list(props), 'bound': bound}
        return fn
    return deco


class Tally:
    """helper for bounded checks: counts evaluations, distinct non-trivial cases, violations, keeps samples"""

    def __init__(self, rule):
        self.rule = rule
        self.evaluations = 0
        self.distinct = set()
        self.violations = []
        self.samples = []
        self.exhaustive = False

    def case(self, key, nontrivial=True, sample=None):
        self.evaluations += 1
        if nontrivial:
            self.distinct.add(key)
        if sample is not None and len(self.samples) < 4:
            self.samples.append(sample)

    def violation(self, what, inputs, repro=None, finding_key=None):
        if len(self.violations) < 20:
            self.violations.append({'what': what, 'inputs': inputs if isinstance(inputs, str) else repr(inputs)[:600], 'repro': repro, 'key': finding_key or what})

    def result(self):
        return {'evaluations': self.evaluations, 'distinct_nontrivial': len(self.distinct), 'rule': self.rule,
                'samples': self.samples, 'violations': self.violations, 'exhaustive': self.exhaustive}
