"""Path state, decision replay (re-execution DFS) and obligations."""
import hashlib
import threading
import time
import z3


def guarded_check(solver, timeout_ms, *assumptions):
    """solver.check() with a watchdog: z3's sequence solver does not always honour its own timeout"""
    timer = threading.Timer(timeout_ms / 1000.0 + 1.5, lambda: z3.main_ctx().interrupt())
    timer.daemon = True
    timer.start()
    try:
        return solver.check(*assumptions)
    except z3.Z3Exception:
        return z3.unknown
    finally:
        timer.cancel()

from .values import SV, Loc, Unsupported, simp


def _retry_canceled(op):
    """a watchdog interrupt that fires just after a check has returned makes the *next* API call fail with 'canceled':
    that call is simply repeated"""
    for attempt in range(3):
        try:
            return op()
        except z3.Z3Exception as ex:
            if b'canceled' not in (ex.value if isinstance(ex.value, bytes) else str(ex.value).encode()) or attempt == 2:
                raise


class PathEnd(Exception):
    """the current path ends here (cut by an invariant, or infeasible)"""


class PyRaise(Exception):
    """a Python exception raised by the interpreted code"""

    def __init__(self, cls, args=(), note=""):
        Exception.__init__(self, cls.__name__)
        self.cls, self.eargs, self.note = cls, tuple(args), note


class Obligation:
    __slots__ = ('unit', 'kind', 'label', 'hyps', 'goal', 'sig', 'trace', 'status', 'secs', 'backend', 'model', 'reason', 'ctx', 'smt2', 'second', 'need_model')

    def __init__(self, unit, kind, label, hyps, goal, trace):
        self.unit, self.kind, self.label = unit, kind, label
        self.hyps, self.goal, self.trace = list(hyps), goal, list(trace)
        h = hashlib.sha1(repr([(t, d) for t, d in trace]).encode()).hexdigest()[:10]
        self.sig = h
        self.status = None
        self.secs = 0.0
        self.backend = None
        self.model = None
        self.reason = None
        self.ctx = None

    @property
    def oid(self):
        return "%s/%s:%s@%s" % (self.unit, self.kind, self.label, self.sig)

    @property
    def clause(self):
        return "%s/%s:%s" % (self.unit, self.kind, self.label)


class Explorer:
    """explores all decision sequences of a deterministic run(state) by re-execution"""

    def __init__(self, unit, feas_timeout_ms=3000, max_paths=4000):
        self.unit = unit
        self.feas_timeout_ms = feas_timeout_ms
        self.max_paths = max_paths
        self.obligations = {}
        self.paths = 0
        self.unsupported = []      # (trace, reason)
        self.feas_queries = 0
        self.feas_secs = 0.0
        self.worklist = []

    def explore(self, run):
        self.worklist = [[]]
        while self.worklist:
            prefix = self.worklist.pop()
            if self.paths >= self.max_paths:
                self.unsupported.append(([], "path budget exceeded (%d)" % self.max_paths))
                break
            st = State(self, prefix)
            self.paths += 1
            try:
                run(st)
            except PathEnd:
                pass
            except Unsupported as ex:
                self.unsupported.append((list(st.trace), str(ex)))
            except RecursionError:
                self.unsupported.append((list(st.trace), "recursion limit"))
        return self


class State:
    def __init__(self, explorer, prefix):
        self.x = explorer
        self.prefix = prefix
        self.decisions = []
        self.trace = []
        self.pc = []
        self.heap = {}
        self.next_loc = 1
        self.solver = z3.Solver()
        self.solver.set('timeout', explorer.feas_timeout_ms)
        self.solver.set('rlimit', int(__import__('os').environ.get('PYVC_FEAS_RLIMIT', '20000000')))
        self.merge = 0            # >0: merge mode (spec evaluation; no forking, no raising)
        self.ghost = {}           # free-form per-path ghost store
        self.guards = []          # merge-mode branch conditions under which facts are being added

    # ---- heap
    def alloc(self, cell):
        l = Loc(self.next_loc)
        self.next_loc += 1
        self.heap[l.id] = cell
        return l

    def cell(self, loc):
        return self.heap[loc.id]

    def snapshot(self):
        return {k: dict(v) if not isinstance(v.get('items'), list) else dict(v, items=list(v['items'])) for k, v in self.heap.items()}

    # ---- facts
    def assume(self, e):
        if isinstance(e, SV):
            e = e.e
        if isinstance(e, bool):
            if e:
                return
            raise PathEnd()
        if self.guards and not getattr(self, '_unguarded', False):
            e = z3.Implies(z3.And(*self.guards), e)
        e = simp(e)
        if z3.is_true(e):
            return
        self.pc.append(e)
        self.solver.add(e)

    def assume_def(self, e):
        """a definitional / typing fact: true regardless of merge-mode guards"""
        self._unguarded = True
        try:
            self.assume(e)
        finally:
            self._unguarded = False

    def feasible(self, cond):
        t = time.time()
        _retry_canceled(self.solver.push)
        self.solver.add(cond)
        r = guarded_check(self.solver, self.x.feas_timeout_ms)
        self.solver.pop()
        self.x.feas_queries += 1
        self.x.feas_secs += time.time() - t
        return r != z3.unsat

    def unique_value(self, e, force=False, light=False):
        """if the z3 Int expression e can only take one value on this path, return it (else None)"""
        e = simp(e)
        if z3.is_int_value(e):
            return e.as_long()
        # only worth two solver calls when some path fact pins e by an equation (hybrid case enumeration)
        pinned = False
        for c in self.pc:
            if z3.is_eq(c) and (z3.eq(c.arg(0), e) or z3.eq(c.arg(1), e)):
                other = c.arg(1) if z3.eq(c.arg(0), e) else c.arg(0)
                if z3.is_int_value(other):
                    return other.as_long()      # a path fact states e == constant
                pinned = True
                break
        if not pinned and not force:
            return None
        if force and light:
            # cheap first: a solver that sees only the small conjuncts of the path condition (the big ones carry
            # sequence facts that can make a check slow), asked about each integer literal they mention
            small, cands = [], []

            def numerals(t, depth=0):
                if z3.is_int_value(t):
                    v_ = t.as_long()
                    if v_ not in cands:
                        cands.append(v_)
                elif depth < 12:
                    for ch in t.children():
                        numerals(ch, depth + 1)
            for c in self.pc:
                cs = [c]
                while cs:
                    c_ = cs.pop()
                    if z3.is_and(c_):
                        cs.extend(c_.children())
                    elif len(c_.sexpr()) < 1500:
                        small.append(c_)
                        numerals(c_)
            if small and cands:
                s_ = z3.Solver()
                s_.set('timeout', 2000)
                s_.add(*small)
                t_end = time.time() + 6
                for k_ in sorted(cands, key=lambda v_: (v_ < 0, v_ > 255, v_ < 2))[:80]:
                    if time.time() > t_end:
                        break
                    s_.push()
                    s_.add(e != k_)
                    r_ = guarded_check(s_, 2000)
                    s_.pop()
                    if r_ == z3.unsat:
                        return k_
        cache = self.ghost.setdefault('unique_cache', {})
        key = (e.get_id(), len(self.pc))
        if key in cache:
            return cache[key]
        res = None
        _retry_canceled(self.solver.push)
        try:
            if guarded_check(self.solver, self.x.feas_timeout_ms) == z3.sat:
                v = self.solver.model().eval(e, model_completion=True)
                if z3.is_int_value(v):
                    self.solver.add(e != v)
                    if guarded_check(self.solver, self.x.feas_timeout_ms) == z3.unsat:
                        res = v.as_long()
        finally:
            self.solver.pop()
        self.x.feas_queries += 2
        cache[key] = res
        return res

    def branch(self, cond, label=""):
        """decide a symbolic condition; returns the direction taken on this path"""
        if isinstance(cond, SV):
            cond = cond.e
        if isinstance(cond, bool):
            return cond
        cond = simp(cond)
        if z3.is_true(cond):
            return True
        if z3.is_false(cond):
            return False
        if self.merge:
            raise Unsupported("branch on symbolic condition in merge mode: " + label)
        k = len(self.decisions)
        if k < len(self.prefix):
            d = self.prefix[k]
        else:
            ft = self.feasible(cond)
            ff = self.feasible(z3.Not(cond))
            if ft and ff:
                self.x.worklist.append(self.decisions + [False])
                d = True
            elif ft:
                d = True
            elif ff:
                d = False
            else:
                raise PathEnd()
        self.decisions.append(d)
        self.trace.append((label, d))
        c = cond if d else simp(z3.Not(cond))
        self.pc.append(c)
        self.solver.add(c)
        return d

    def oblige(self, kind, label, goal):
        if isinstance(goal, SV):
            goal = goal.e
        if isinstance(goal, bool):
            goal = z3.BoolVal(goal)
        if self.guards:
            goal = z3.Implies(z3.And(*self.guards), goal)
        ob = Obligation(self.x.unit, kind, label, self.pc, goal, self.trace)
        if ob.oid not in self.x.obligations:
            self.x.obligations[ob.oid] = ob
        return ob
