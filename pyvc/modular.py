"""Modular reasoning: loop invariants, callee contracts, spec functions, merge-mode if, old()."""
import ast
import z3

from .values import (SV, Loc, Unsupported, lift, kind_of, fresh, simp, concrete_of, has_sym,
                     sort_of, kind_name)
from .state import PathEnd, PyRaise
from . import api

OLD = api.old
SPECIAL_NAMES = {}

MAX_UNROLL_SYMBOLIC = 12


def _models():
    from . import models
    return models


# ------------------------------------------------------------------ contract-function evaluation
def eval_cfn(ip, fn, values, old_heap=None):
    """evaluate a contract function (requires/ensures/invariant/when) in merge mode.
    Parameters are bound by name from `values`."""
    from .interp import function_ast, qualname_of
    node, _ = function_ast(fn)
    names = [a.arg for a in node.args.posonlyargs + node.args.args]
    missing = [n for n in names if n not in values]
    if missing:
        raise Unsupported("contract function %s wants unknown names %s" % (fn.__qualname__, missing))
    args = [values[n] for n in names]
    st = ip.st
    st.merge += 1
    saved = (ip.use_contracts, getattr(ip, 'old_heap', None))
    ip.use_contracts = False
    if old_heap is not None:
        ip.old_heap = old_heap
    try:
        closure = {}
        if fn.__closure__:
            for nm, cell in zip(fn.__code__.co_freevars, fn.__closure__):
                closure[nm] = cell.cell_contents
        return ip.run_function(node, fn.__globals__, qualname_of(fn), args, {}, closure, fn)
    finally:
        st.merge -= 1
        ip.use_contracts, ip.old_heap = saved


def eval_old(ip, node):
    oh = getattr(ip, 'old_heap', None)
    if oh is None:
        raise Unsupported("old() without a pre-state")
    st = ip.st
    cur = st.heap
    st.heap = {k: dict(v) for k, v in oh.items()}
    try:
        return ip.ev(node.args[0])
    finally:
        st.heap = cur


def clauses(v):
    """a contract function may return one condition or a tuple of them"""
    if isinstance(v, tuple):
        return list(v)
    return [v]


# ------------------------------------------------------------------ merge-mode if
def merge_if(ip, s, c):
    """merge-mode if: both branches become an ite; when their results cannot be merged (None vs a number, tuples of
    different shape) fall back to asking the path condition which branch applies"""
    try:
        return _merge_if(ip, s, c, False)
    except Unsupported as ex:
        if 'merge' not in str(ex):
            raise
    return _merge_if(ip, s, c, True)


def _merge_if(ip, s, c, pc_aware):
    from .interp import _Return
    M = _models()
    t = ip.truth_lit(c)
    if isinstance(t, bool):
        ip.run_block(s.body if t else s.orelse)
        return
    # if the path condition (and the enclosing merge guards) already decide the test, evaluate that branch only:
    # keeps specs with differently shaped results per case (None vs a number) evaluable and the terms small
    st_ = ip.st
    if pc_aware or st_.ghost.get('pc_aware'):
        g_ = z3.And(*st_.guards) if st_.guards else z3.BoolVal(True)
        if not st_.feasible(z3.And(g_, z3.Not(t))):
            ip.run_block(s.body)
            return
        if not st_.feasible(z3.And(g_, t)):
            ip.run_block(s.orelse)
            return
    fr = ip.frames[-1]
    if not hasattr(fr, 'pending'):
        fr.pending = []
    env0 = dict(fr.env)
    p0 = len(fr.pending)
    heap0 = {k: dict(v) for k, v in ip.st.heap.items()}

    def set_heap(h):
        """restore heap contents in place (cell dict identities are kept)"""
        live = ip.st.heap
        for k in list(live):
            if k not in h:
                del live[k]
        for k, v in h.items():
            if k in live:
                live[k].clear()
                live[k].update(v)
            else:
                live[k] = dict(v)

    def run(block, guard):
        fr.env = dict(env0)
        set_heap(heap0)
        ret = (False, None)
        ip.st.guards.append(guard)
        try:
            ip.run_block(block)
        except _Return as r:
            ret = (True, r.value)
        finally:
            ip.st.guards.pop()
        pend = fr.pending[p0:]
        del fr.pending[p0:]
        return ret[0], ret[1], fr.env, pend, {k: dict(v) for k, v in ip.st.heap.items()}

    nt = simp(z3.Not(t))
    b = run(s.body, t)
    e = run(s.orelse, nt)
    fr.pending.extend([(simp(z3.And(t, cc)), v) for cc, v in b[3]] + [(simp(z3.And(nt, cc)), v) for cc, v in e[3]])
    if b[0] and e[0]:
        fr.env = env0
        set_heap(heap0)
        raise _Return(M.ite(ip, t, b[1], e[1]))
    if b[0]:
        fr.pending.append((t, b[1]))
        fr.env = e[2]
        set_heap(e[4])
        return
    if e[0]:
        fr.pending.append((nt, e[1]))
        fr.env = b[2]
        set_heap(b[4])
        return
    env = {}
    for k in set(b[2]) | set(e[2]):
        if k in b[2] and k in e[2]:
            env[k] = b[2][k] if b[2][k] is e[2][k] else M.ite(ip, t, b[2][k], e[2][k])
        # variables defined in only one branch are dropped (use would be a NameError)
    fr.env = env
    # heaps: spec code is pure except for local scratch lists; require identical cells
    hb, he = b[4], e[4]
    for k in set(hb) | set(he):
        if k in heap0 and (hb.get(k) != heap0[k] or he.get(k) != heap0[k]):
            try:
                same = hb.get(k) == he.get(k)
            except TypeError:
                same = False
            if not same:
                raise Unsupported("heap mutation inside merge-mode branch")
    set_heap(hb)


def finish_pending(ip, fr, r):
    pend = getattr(fr, 'pending', None)
    if pend:
        M = _models()
        for cond, val in reversed(pend):
            r = M.ite(ip, cond, val, r)
    return r


# ------------------------------------------------------------------ spec functions
def call_spec(ip, sp, args, kw):
    from .interp import function_ast, qualname_of
    if kw:
        node, _ = function_ast(sp.fn)
        env = ip.bind_args(node, args, kw, sp.name)
        args = [env[a.arg] for a in node.args.args]
    args = [concrete_of(a)[1] if isinstance(a, SV) and concrete_of(a)[0] else a for a in args]
    if not has_sym(args) and not ip.st.ghost.get('no_native_spec') and not (getattr(sp.fn, '_symbolic_only', False) and not ip.st.ghost.get('no_invariants')):
        try:
            r = sp.fn(*args)
        except Unsupported:
            raise
        except Exception as ex:
            raise Unsupported("spec %s failed natively: %r" % (sp.name, ex))
        if sp.rec and sp.args is not None and not isinstance(sp.zfun, list):
            # link the concrete value to the uninterpreted application (other terms may mention it symbolically)
            try:
                app = sp.zfun(*[lift(a, k).e for a, k in zip(args, sp.args)])
                ip.st.assume_def(app == lift(r, sp.ret).e)
            except Unsupported:
                pass
        return r
    if sp.special is not None:
        return sp.special(ip, *args)
    if not sp.rec:
        return _inline_spec(ip, sp, args)
    zargs = []
    for a, k in zip(args, sp.args):
        if isinstance(a, Loc):
            a = ip.seq_view(a)
        zargs.append(lift(a, k))
    multi = isinstance(sp.ret, tuple) and sp.ret[0] == 'tuple'
    if multi:
        apps = [f(*[a.e for a in zargs]) for f in sp.zfun]
        res = tuple(SV(a, k) for a, k in zip(apps, sp.ret[1]))
        key = apps[0].sexpr()
    else:
        app = sp.zfun(*[a.e for a in zargs])
        res = SV(app, sp.ret)
        key = app.sexpr()
    st = ip.st
    done = st.ghost.setdefault('unfolded', set())
    fuels = st.ghost.setdefault('fuel', {})
    depth = st.ghost.get('unfold_depth', 0)
    fuel = fuels.get(sp.name, sp.fuel)
    if sp.opaque:
        # opaque: only its name and post-facts are visible unless the unit/lemma asks to reveal it
        revealed = (sp.name in st.ghost.get('reveal', ()) or '*' in st.ghost.get('reveal', ()))
        fuel = fuels.get(sp.name, 1) if revealed else 0
    if depth >= 3:
        fuel = 0
    if key not in done:
        if sp.post is not None:
            done.add(key)   # avoid re-entry while evaluating post
            pv = eval_cfn(ip, sp.post, _named(sp, zargs, res))
            for c in clauses(pv):
                st.assume_def(ip.zbool(c))
            done.discard(key)
        if fuel > 0 and not sp.axiomatic:
            done.add(key)
            prev = fuels.get(sp.name)
            fuels[sp.name] = fuel - 1
            st.ghost['unfold_depth'] = depth + 1
            try:
                body = _inline_spec(ip, sp, zargs)
            finally:
                st.ghost['unfold_depth'] = depth
                if prev is None:
                    fuels.pop(sp.name, None)
                else:
                    fuels[sp.name] = prev
            if multi:
                for r, b, k in zip(res, body, sp.ret[1]):
                    st.assume_def(r.e == lift(b, k).e)
            else:
                st.assume_def(res.e == lift(body, sp.ret).e)
    return res


def _named(sp, zargs, res):
    from .interp import function_ast
    node, _ = function_ast(sp.fn)
    d = {a.arg: v for a, v in zip(node.args.args, zargs)}
    d['result'] = res
    return d


def _inline_spec(ip, sp, args):
    from .interp import function_ast, qualname_of
    node, _ = function_ast(sp.fn)
    st = ip.st
    st.merge += 1
    saved = ip.use_contracts
    ip.use_contracts = False
    try:
        return ip.run_function(node, sp.fn.__globals__, "spec:" + sp.name, args, {}, {}, sp.fn)
    finally:
        st.merge -= 1
        ip.use_contracts = saved


def unfold_hint(ip, args, kw):
    """unfold(spec_fn, *args): add the definitional equation of a recursive spec at these arguments"""
    fn = args[0]
    sp = ip.reg.specs.get(fn)
    if sp is None:
        raise Unsupported("unfold of a non-spec function")
    st = ip.st
    fuels = st.ghost.setdefault('fuel', {})
    old = fuels.get(sp.name)
    fuels[sp.name] = max(1, kw.get('fuel', 1))
    rv = set(st.ghost.get('reveal', ()))
    st.ghost['reveal'] = rv | {sp.name}
    try:
        zargs = [lift(ip.seq_view(a) if isinstance(a, Loc) else a, k) for a, k in zip(args[1:], sp.args)]
        app = sp.zfun(*[a.e for a in zargs]) if not isinstance(sp.zfun, list) else sp.zfun[0](*[a.e for a in zargs])
        st.ghost.setdefault('unfolded', set()).discard(app.sexpr())
        call_spec(ip, sp, list(args[1:]), {})
    finally:
        st.ghost['reveal'] = rv
        if old is None:
            fuels.pop(sp.name, None)
        else:
            fuels[sp.name] = old
    return True


# ------------------------------------------------------------------ havoc
def havoc_cell(ip, loc, name, kind=None, shallow=False):
    c = ip.st.cell(loc)
    k = c['k']
    c.pop('byte_elems', None)          # nothing is known about the elements of a havocked list
    if k == 'list' and 'items' in c and kind is not None:
        del c['items']
        c['seq'] = fresh(name + "_seq", kind)
        return
    if k == 'set':
        # abstract set: the sequence of its members in insertion order (only membership is observable through it)
        if 'elems' in c:
            c['elems'] = fresh(name + "_elems", c['elems'].kind)
        elif kind is not None:
            c.pop('items', None)
            c['elems'] = fresh(name + "_elems", kind)
        else:
            raise Unsupported("havoc of set %s (declare the kind of its member sequence)" % name)
        return
    if k == 'bytearray':
        c['data'] = fresh(name + "_data", 'bytes')
    elif k == 'bytesio':
        c['data'] = fresh(name + "_data", 'bytes')
        if c.get('append'):
            c['pos'] = SV(simp(z3.Length(c['data'].e)), 'int')
        else:
            p = fresh(name + "_pos", 'int')
            ip.st.assume(z3.And(p.e >= 0, p.e <= z3.Length(c['data'].e)))
            c['pos'] = p
    elif k == 'list':
        if 'seq' in c:
            c['seq'] = fresh(name + "_seq", c['seq'].kind)
        else:
            kinds = {kind_of(x) for x in c['items']}
            if len(kinds) == 1 and None not in kinds:
                del c['items']
                c['seq'] = fresh(name + "_seq", ('seq', kinds.pop()))
            else:
                raise Unsupported("havoc of heterogeneous/empty meta list %s (declare its kind)" % name)
    elif k == 'obj':
        f = {}
        for fn_, v in c['f'].items():
            kk = kind_of(v)
            if isinstance(v, Loc):
                if not shallow:
                    havoc_cell(ip, v, name + "_" + fn_)
                f[fn_] = v
            elif kk is not None:
                f[fn_] = fresh(name + "_" + fn_, kk)
            else:
                f[fn_] = v
        c['f'] = f
    else:
        raise Unsupported("havoc of cell kind " + k)


def havoc_value(ip, name, cur, kinds):
    if name in kinds:
        k = kinds[name]
        if isinstance(k, api.Builder):
            return k.symbolic(ip, name)
        return fresh(name, k)
    if isinstance(cur, Loc):
        return cur
    k = kind_of(cur)
    if k is None:
        raise Unsupported("cannot havoc local '%s' (value %r); declare its kind in the invariant" % (name, type(cur).__name__))
    return fresh(name, k)


# ------------------------------------------------------------------ loops
def loop_ordinal(fnode, s):
    k = 0
    for n in ast.walk(fnode):
        if isinstance(n, (ast.While, ast.For)):
            if n is s:
                return k
            k += 1
    # mutated ASTs keep node identity only within the mutated tree
    return -1


def _assigned_names(stmts):
    out = set()
    for s in stmts:
        for n in ast.walk(s):
            if isinstance(n, ast.Name) and isinstance(n.ctx, (ast.Store, ast.Del)):
                out.add(n.id)
    return out


def run_loop(ip, s):
    from .interp import _Break, _Continue
    from .builtins_model import SymRange
    fr = ip.frames[-1]
    st = ip.st
    inv = None
    if isinstance(fr.node, (ast.FunctionDef,)) and not st.ghost.get('no_invariants'):
        inv = ip.reg.invariant_for(fr.qual, getattr(s, '_pyvc_key', None) or loop_ordinal(fr.node, s))
    if isinstance(s, ast.For):
        it = ip.ev(s.iter)
        if isinstance(it, range) and it.step == 1 and it.stop - it.start > 100000:
            return _lazy_range_loop(ip, s, SymRange(it.start, it.stop, it.step))      # huge concrete range: iterate lazily
        items = ip.meta_items(it)
        if items is None and inv is None and isinstance(it, SymRange) and st.ghost.get('unroll_bound') is None:
            return _lazy_range_loop(ip, s, it)
        if items is None and inv is None:
            items = _models().iter_symbolic_unrolled(ip, it) if not isinstance(it, SymRange) else _unroll_range(ip, it)
        if items is not None:
            broke = False
            for x in items:
                ip.assign(s.target, x)
                try:
                    ip.run_block(s.body)
                except _Break:
                    broke = True
                    break
                except _Continue:
                    continue
            if not broke:
                ip.run_block(s.orelse)
            return
        return _for_with_invariant(ip, s, it, inv)
    if inv is None:
        n = 0
        sym_iters = 0
        while True:
            c = ip.ev(s.test)
            t = ip.truth(c)
            if not isinstance(t, bool):
                sym_iters += 1
                if sym_iters > MAX_UNROLL_SYMBOLIC:
                    raise Unsupported("while loop without invariant exceeded %d symbolic iterations" % MAX_UNROLL_SYMBOLIC)
                t = st.branch(t, "while " + ast.unparse(s.test))
            if not t:
                ip.run_block(s.orelse)
                return
            n += 1
            if n > 200000:
                raise Unsupported("while loop iteration budget")
            try:
                ip.run_block(s.body)
            except _Break:
                return
            except _Continue:
                continue
    return _while_with_invariant(ip, s, inv)


def _lazy_range_loop(ip, s, r):
    """for i in range(symbolic): iterate while the path can still decide `i < stop` (like a while loop)"""
    from .interp import _Break, _Continue
    st = ip.st
    if r.step != 1:
        raise Unsupported("symbolic range with step")
    lo, hi = lift(r.start, 'int').e, lift(r.stop, 'int').e
    k = 0
    while True:
        if k > MAX_UNROLL_SYMBOLIC:
            raise Unsupported("for over a symbolic range without invariant exceeded %d iterations" % MAX_UNROLL_SYMBOLIC)
        if not st.branch(lo + k < hi, "range has item %d" % k):
            ip.run_block(s.orelse)
            return
        ip.assign(s.target, SV(simp(lo + k), 'int'))
        k += 1
        try:
            ip.run_block(s.body)
        except _Break:
            return
        except _Continue:
            continue


def _unroll_range(ip, r):
    st = ip.st
    lo, hi = lift(r.start, 'int').e, lift(r.stop, 'int').e
    if r.step != 1:
        raise Unsupported("symbolic range with step")
    n = simp(z3.If(hi > lo, hi - lo, 0))
    bound = st.ghost.get('unroll_bound')
    if bound is None:
        raise Unsupported("range of symbolic length (needs invariant)")
    for k in range(bound + 1):
        if st.branch(n == k, "range length == %d" % k):
            return [SV(simp(lo + j), 'int') for j in range(k)]
    raise Unsupported("range longer than unroll bound")


def _inv_values(ip, inv, extra):
    fr = ip.frames[-1]
    vals = dict(fr.env)
    for k, v in fr.entry.items():
        vals['old_' + k] = v
    vals.update(extra)
    return vals


def _check_inv(ip, inv, kind, extra, assume=False):
    fr = ip.frames[-1]
    v = eval_cfn(ip, inv.fn, _inv_values(ip, inv, extra), getattr(fr, 'entry_heap', None))
    for i, c in enumerate(clauses(v)):
        if assume:
            ip.st.assume(ip.zbool(c))
        else:
            ip.st.oblige(kind, "%s#loop%s.%d" % (fr.qual, inv.loop, i), ip.zbool(c))


def _havoc_loop(ip, s, inv, extra_names=()):
    fr = ip.frames[-1]
    names = _assigned_names(s.body) | set(extra_names)
    if isinstance(s, ast.For):
        names -= _assigned_names([ast.Expr(s.target)]) if False else set()
    modified_cells = set()
    for nm0 in inv.modifies:
        shallow = nm0.endswith('!')          # "obj!": the object's own scalar fields, not the objects it refers to
        nm = nm0.rstrip('!')
        v = fr.env.get(nm)
        if v is None and '.' in nm:
            base, attr = nm.split('.', 1)
            v = ip.getattr(fr.env[base], attr)
        if not isinstance(v, Loc):
            raise Unsupported("invariant modifies '%s' which is not a heap object" % nm)
        havoc_cell(ip, v, nm.replace('.', '_'), inv.kinds.get(nm) if not isinstance(inv.kinds.get(nm), api.Builder) else None, shallow=shallow)
        modified_cells.add(v.id)
    for nm in sorted(names):
        if nm in fr.env:
            fr.env[nm] = havoc_value(ip, nm, fr.env[nm], inv.kinds)
        elif nm in inv.kinds:
            fr.env[nm] = havoc_value(ip, nm, None, inv.kinds)
    return modified_cells


def _frame_check(ip, before, modified_cells):
    for k, c in before.items():
        if k in modified_cells:
            continue
        now = ip.st.heap.get(k)
        if now is None:
            continue
        for fld, v in c.items():
            nv = now.get(fld)
            if nv is v:
                continue
            if isinstance(v, (list, dict)) and isinstance(nv, type(v)) and len(v) == len(nv) and \
                    all(a is b for a, b in zip(v.values() if isinstance(v, dict) else v, nv.values() if isinstance(nv, dict) else nv)):
                continue
            if not has_sym(v) and not has_sym(nv) and not isinstance(v, (list, dict)):
                try:
                    if v == nv:
                        continue
                except Exception:
                    pass
            raise Unsupported("loop body modifies heap cell #%d field %s not listed in invariant.modifies" % (k, fld))


def _run_body_then_cut(ip, s, inv, extra_after, modified_cells):
    from .interp import _Break, _Continue
    before = {k: dict(v) for k, v in ip.st.heap.items()}
    try:
        ip.run_block(s.body)
    except _Continue:
        pass
    except _Break:
        _frame_check(ip, before, modified_cells)
        return 'break'
    _frame_check(ip, before, modified_cells)
    _check_inv(ip, inv, 'inv-step', extra_after)
    raise PathEnd()


def _while_with_invariant(ip, s, inv):
    st = ip.st
    _check_inv(ip, inv, 'inv-init', {})
    modified = _havoc_loop(ip, s, inv)
    _check_inv(ip, inv, None, {}, assume=True)
    fr = ip.frames[-1]
    if inv.decreases is not None:
        m0 = lift(eval_cfn(ip, inv.decreases, _inv_values(ip, inv, {})), 'int')
    c = ip.ev(s.test)
    if ip.decide(c, "while " + ast.unparse(s.test)):
        r = _run_body_then_cut_dec(ip, s, inv, {}, modified, m0 if inv.decreases is not None else None)
        if r == 'break':
            return
    else:
        ip.run_block(s.orelse)


def _run_body_then_cut_dec(ip, s, inv, extra, modified, m0):
    from .interp import _Break, _Continue
    before = {k: dict(v) for k, v in ip.st.heap.items()}
    fr = ip.frames[-1]
    try:
        ip.run_block(s.body)
    except _Continue:
        pass
    except _Break:
        _frame_check(ip, before, modified)
        return 'break'
    _frame_check(ip, before, modified)
    _check_inv(ip, inv, 'inv-step', extra)
    if m0 is not None:
        m1 = lift(eval_cfn(ip, inv.decreases, _inv_values(ip, inv, extra)), 'int')
        ip.st.oblige('decreases', "%s#loop%s" % (fr.qual, inv.loop), z3.And(m0.e >= 0, m1.e < m0.e))
    raise PathEnd()


def _for_with_invariant(ip, s, it, inv):
    from .builtins_model import SymRange, SymEnumerate
    from .interp import _Break, _Continue
    st = ip.st
    M = _models()
    fr = ip.frames[-1]
    if isinstance(it, SymRange):
        lo, hi = lift(it.start, 'int').e, lift(it.stop, 'int').e
        step = it.step
        if not (isinstance(step, int) and not isinstance(step, bool) and step >= 1):
            raise Unsupported("symbolic range with a step that is not a positive literal")
        if step == 1:
            n = simp(z3.If(hi > lo, hi - lo, 0))
            elem = lambda i: SV(simp(lo + i), 'int')
        else:
            # len(range(lo, hi, step)) = ceil((hi - lo) / step) for hi > lo
            n = simp(z3.If(hi > lo, (hi - lo + (step - 1)) / step, 0))
            elem = lambda i: SV(simp(lo + step * i), 'int')
    elif isinstance(it, SymEnumerate):
        sq = ip.seq_view(it.seq)
        n = simp(z3.Length(sq.e))
        elem = lambda i: (SV(simp(it.start + i), 'int'), M.elem_value(ip, sq, i))
    else:
        sq = ip.seq_view(it)
        if sq is None:
            raise Unsupported("for over %r" % (it,))
        n = simp(z3.Length(sq.e))
        elem = lambda i: M.elem_value(ip, sq, i)
    _check_inv(ip, inv, 'inv-init', {'_i': 0})
    modified = _havoc_loop(ip, s, inv, extra_names=_assigned_names([ast.Expr(s.target)]))
    i = fresh('_i', 'int')
    st.assume(z3.And(i.e >= 0, i.e <= n))
    _check_inv(ip, inv, None, {'_i': i}, assume=True)
    if st.branch(i.e < n, "for: more items"):
        fr.env['_i%s' % inv.loop] = i
        ip.assign(s.target, elem(i.e))
        before = {k: dict(v) for k, v in st.heap.items()}
        try:
            ip.run_block(s.body)
        except _Continue:
            pass
        except _Break:
            _frame_check(ip, before, modified)
            return
        _frame_check(ip, before, modified)
        _check_inv(ip, inv, 'inv-step', {'_i': SV(simp(i.e + 1), 'int')})
        raise PathEnd()
    else:
        fr.env['_i_final'] = i
        ip.run_block(s.orelse)


# ------------------------------------------------------------------ applying a callee's contract
def bind_for_contract(ip, c, f, args, kw):
    from .interp import function_ast
    node, _ = function_ast(f)
    return ip.bind_args(node, args, kw, c.target, f)


def apply_contract(ip, c, f, args, kw):
    st = ip.st
    env = bind_for_contract(ip, c, f, args, kw)
    values = dict(env)
    for real_, alias_ in getattr(c, 'param_alias', {}).items():
        values[alias_] = env[real_]
    st.ghost.setdefault('contracts_used', set()).add(c.target)
    # precondition
    if c.requires is not None:
        pre = eval_cfn(ip, c.requires, values)
        for i, cl in enumerate(clauses(pre)):
            z = ip.zbool(cl)
            st.oblige('call-pre', "%s<-%s.%d" % (c.target, ip.frames[-1].qual if ip.frames else '?', i), z)
            st.assume(z)
    old_heap = {k: dict(v) for k, v in st.heap.items()}
    guard_z = {nm_: ip.zbool(eval_cfn(ip, g_, values)) for nm_, g_ in c.guards.items()}
    # exceptional outcomes
    for (exc, when, iff) in c.raises:
        if when is None:
            b = fresh('may_raise_' + exc.__name__, 'bool')
            if st.branch(b.e, "%s may raise %s" % (c.target, exc.__name__)):
                raise PyRaise(exc, (), "from contract of " + c.target)
        else:
            w = ip.zbool(eval_cfn(ip, when, values))
            if not iff:
                # the callee may raise only when `when` holds, but need not
                w = z3.And(w, fresh('may_raise_' + exc.__name__, 'bool').e)
            elif iff == 'must':
                # the callee raises whenever `when` holds, and may otherwise
                w = z3.Or(w, fresh('may_raise_' + exc.__name__, 'bool').e)
            if st.branch(w, "%s raises %s" % (c.target, exc.__name__)):
                raise PyRaise(exc, (), "from contract of " + c.target)
    # frame: havoc what the callee may assign
    for nm in c.assigns:
        only_ = nm.endswith('!')
        nm_ = nm.rstrip('!')
        v = values.get(nm_.split('.')[0])
        for attr_ in nm_.split('.')[1:]:
            v = ip.getattr(v, attr_)
        if not isinstance(v, Loc):
            raise Unsupported("contract %s assigns '%s' which is not a heap object here" % (c.target, nm))
        havoc_cell(ip, v, nm_.replace('.', '_'), shallow=only_)
    result = None
    if c.returns is not None:
        result = c.returns.symbolic(ip, "ret_" + c.name)
    values['result'] = result
    only = (st.ghost.get('callee_ensures') or {}).get(c.target)
    defining = None
    for name, ens in c.ensures:
        if only is not None and name not in only:
            continue      # the calling unit asked for a subset of this callee's postconditions (assuming less is sound)
        gz = guard_z.get(name)
        pv = eval_cfn(ip, ens, values, old_heap)
        for cl in clauses(pv):
            z = ip.zbool(cl)
            if z3.is_false(simp(z)) and (gz is None or z3.is_true(simp(gz))):
                if c.returns is not None:
                    # one of the alternatives the `returns` builder enumerates (e.g. None of an Opt) contradicts the
                    # postcondition: the callee never returns that; this path does not exist
                    raise PathEnd()
                # assuming it would make everything after the call vacuously true (the callee's contract has no
                # `returns` builder, so `result` is None and `result == ...` is plainly False)
                raise Unsupported("postcondition %s of %s is plainly false at this call (contract without `returns`?)" % (name, c.target))
            st.assume(z if gz is None else z3.Implies(gz, z))
            # a postcondition of the form `result == term`: hand the term itself to the caller, so that what it builds
            # from the result matches its own specification syntactically (the equation stays assumed as well)
            if gz is None and isinstance(result, SV) and z3.is_const(result.e) and defining is None and z3.is_eq(z):
                for a_, b_ in ((z.arg(0), z.arg(1)), (z.arg(1), z.arg(0))):
                    if z3.eq(a_, result.e) and not _mentions(b_, result.e):
                        defining = SV(b_, result.kind)
                        break
    if defining is not None:
        return defining
    return result


def _mentions(t, c):
    todo, seen = [t], set()
    while todo:
        x = todo.pop()
        if x.get_id() in seen:
            continue
        seen.add(x.get_id())
        if z3.eq(x, c):
            return True
        todo.extend(x.children())
    return False


# ------------------------------------------------------------------ lemmas
def call_lemma(ip, lm, args, kw):
    """use of a proved lemma: check its requires, assume its statement (under the current guards)"""
    from .interp import function_ast
    st = ip.st
    node, _ = function_ast(lm.fn)
    env = ip.bind_args(node, args, kw, lm.name)
    proving = st.ghost.get('proving_lemma')
    st.ghost.setdefault('lemmas_used', set()).add(lm.name)
    if lm.requires is not None:
        for i, cl in enumerate(clauses(eval_cfn(ip, lm.requires, env))):
            st.oblige('lemma-pre', "%s.%d" % (lm.name, i), ip.zbool(cl))
    if proving is not None and proving[0] is lm:
        # recursive use = induction hypothesis: the measure must decrease
        if lm.induct is None:
            raise Unsupported("recursive lemma %s without decreases" % lm.name)
        m1 = lift(eval_cfn(ip, lm.induct, env), 'int').e
        st.oblige('lemma-decreases', lm.name, z3.And(m1 >= 0, m1 < proving[1]))
    # statement evaluated without running nested lemma calls of its body: evaluate the *returned* goal only
    depth = st.ghost.get('lemma_depth', 0)
    if depth > 3:
        return True
    st.ghost['lemma_depth'] = depth + 1
    st.ghost['lemma_stmt_only'] = st.ghost.get('lemma_stmt_only', 0) + 1
    try:
        goal = eval_cfn(ip, lm.fn, env)
    finally:
        st.ghost['lemma_depth'] = depth
        st.ghost['lemma_stmt_only'] -= 1
    for cl in clauses(goal):
        st.assume(ip.zbool(cl))
    return True
