"""vf replay <file>: re-run the native part of a recorded violation against /repo's current tree."""
import base64
import json
import pickle
import sys


def main(path):
    d = json.load(open(path))
    print("property:", d.get('property'), " obligation:", d.get('obligation'))
    print("clause:", d.get('clause'))
    print("inputs:", (d.get('inputs') or '')[:2000])
    nat = d.get('native') or {}
    if d.get('obligation', '').startswith('bounded:'):
        print("bounded harness finding; reproducer snippet:\n", nat.get('observation'))
        return 0
    from pyvc import cli, verify, api
    reg = cli.load_all()
    unit = d.get('unit', '').split('[')[0]
    c = reg.contracts.get(unit)
    pk = (d.get('native') or {}).get('pickle') or d.get('pickle')
    if c is None or not pk:
        print("no replayable inputs recorded (%s); solver output:\n%s" % (d.get('reason'), d.get('model')))
        return 0
    nargs = pickle.loads(base64.b64decode(pk))
    for name, b in c.sig.items():
        if isinstance(b, api.Const):
            nargs[name] = b.v
    f = verify.target_function(c)
    chk = verify.native_check(c, f, nargs)
    print("native run now:", json.dumps(chk, default=str)[:2000])
    return 1 if chk.get('violated') else 0
