"""Built-in models: operators, sequences, heap cells, struct, BytesIO, hashing.

Everything here is part of the trusted base (DESIGN.md 2.3) and is exercised by
the CPython cross-check on every run.
"""
import ast
import os
import binascii
import hashlib
import hmac
import io
import struct
import types
import z3

from .values import (SV, Loc, Unsupported, lift, kind_of, fresh, simp, concrete_of, has_sym,
                     sort_of, IntSeq, RecType, kind_name, bytes_lit)
from .state import PathEnd, PyRaise
from .modular import run_loop, apply_contract, call_spec, merge_if, eval_old, OLD, SPECIAL_NAMES, finish_pending  # noqa


class HexText:
    """the text "%x" % v (lower-case hex digits of a non-negative int, no prefix), possibly with `pad` zeros in front;
    only the operations of the hex idioms are defined on it (len, "0" + h, encode, unhexlify)"""

    def __init__(self, v, pad=0, is_bytes=False):
        self.v, self.pad, self.is_bytes = v, pad, is_bytes


class HexOfBytes:
    """binascii.hexlify(b) / b.hex() of symbolic bytes: only int(h, 16) and unhexlify(h) are defined on it"""

    def __init__(self, b):
        self.b = b


def hexlen(ip, v):
    """number of hex digits of the non-negative int v (uninterpreted; linked to the byte length of be_min_bytes)"""
    f = z3.Function('hexlen', z3.IntSort(), z3.IntSort())
    e = f(lift(v, 'int').e)
    ip.st.assume_def(e >= 1)
    return e


class SymText:
    """text built by formatting symbolic values (exception messages); opaque: only passed around, never inspected"""

    def __repr__(self):
        return "<text with symbolic parts>"


class ExcValue:
    def __init__(self, cls, args):
        self.cls, self.args = cls, tuple(args)


def I(x):
    return x.e if isinstance(x, SV) else z3.IntVal(x)


def ite(ip, c, a, b):
    """merge two values under z3 condition c"""
    if a is b:
        return a
    if not has_sym(a) and not has_sym(b):
        try:
            if type(a) is type(b) and a == b:
                return a
        except Exception:
            pass
    if isinstance(a, tuple) and isinstance(b, tuple) and len(a) == len(b):
        return tuple(ite(ip, c, x, y) for x, y in zip(a, b))
    # a literal tuple merged with a symbolic sequence: both are sequences of that kind
    if isinstance(a, tuple) and isinstance(b, SV) and b.kind[0] == 'seq':
        a = lift(a, b.kind)
    elif isinstance(b, tuple) and isinstance(a, SV) and a.kind[0] == 'seq':
        b = lift(b, a.kind)
    ka, kb = kind_of(a), kind_of(b)
    if ka is None or kb is None:
        raise Unsupported("cannot merge %r / %r" % (a, b))
    if ka != kb:
        if {ka, kb} == {'int', 'bool'}:
            ka = 'int'
        else:
            raise Unsupported("merge of different kinds %s / %s" % (kind_name(ka), kind_name(kb)))
    return SV(simp(z3.If(c, lift(a, ka).e, lift(b, ka).e)), ka)


# ---------------------------------------------------------------- arithmetic
def _pow2(m):
    return m > 0 and (m & (m - 1)) == 0


def py_mod(a, b):
    return z3.If(b > 0, a % b, -((-a) % (-b)))


def py_div(a, b):
    return z3.If(b > 0, a / b, (-a) / (-b))


def binop(ip, op, a, b):
    st = ip.st
    from . import group as G_
    pa, pb = G_.pt_of(ip, a), G_.pt_of(ip, b)
    if pa is not None or pb is not None:
        if op is ast.Mult and (pa is None) != (pb is None):
            k, P = (b, pa) if pa is not None else (a, pb)
            if kind_of(k) in ('int', 'bool'):
                return G_.smul(ip, k, P)
        if op is ast.Add and pa is not None and pb is not None:
            return G_.padd(ip, pa, pb)
        if op is ast.Sub and pa is not None and pb is not None:
            return G_.padd(ip, pa, G_.pneg(ip, pb))
        raise Unsupported("operator %s on abstract points" % op.__name__)
    # unwrap heap sequences for + and *
    if isinstance(a, Loc) or isinstance(b, Loc):
        return _binop_heap(ip, op, a, b)
    if isinstance(a, tuple) or isinstance(b, tuple):
        if op is ast.Add and isinstance(a, tuple) and isinstance(b, tuple):
            return a + b
        if op is ast.Add and isinstance(a, SV) and a.kind[0] == 'seq':
            return SV(simp(z3.Concat(a.e, lift(b, a.kind).e)) if len(b) else a.e, a.kind)
        if op is ast.Add and isinstance(b, SV) and b.kind[0] == 'seq':
            return SV(simp(z3.Concat(lift(a, b.kind).e, b.e)) if len(a) else b.e, b.kind)
        if op is ast.Mult and isinstance(a, tuple) and isinstance(b, int):
            return a * b
        if op is ast.Mod and isinstance(a, str):
            return SymText()
        raise Unsupported("binop on tuple")
    if op is ast.Mod and isinstance(a, str) and a == "%x" and kind_of(b[0] if isinstance(b, tuple) and len(b) == 1 else b) == 'int':
        v_ = b[0] if isinstance(b, tuple) else b
        if not st.merge and st.branch(lift(v_, 'int').e < 0, "hex of a negative number"):
            raise Unsupported("'%x' of a negative int")
        if not st.merge:
            # idiom fact: a number below 2^(4k) has at most k hex digits (tried for the usual widths)
            for bits in (8, 16, 32, 64, 256, 264, 512, 1008):
                if not st.feasible(lift(v_, 'int').e >= (1 << bits)):
                    st.assume_def(hexlen(ip, v_) <= bits // 4)
                    break
        return HexText(v_)
    if op is ast.Add and isinstance(b, HexText) and isinstance(a, (str, bytes)) and a in ("0", b"0"):
        return HexText(b.v, b.pad + 1, b.is_bytes)
    if isinstance(a, (HexText, HexOfBytes)) or isinstance(b, (HexText, HexOfBytes)):
        raise Unsupported("operation on hex text outside the modelled idioms")
    if op is ast.Mod and isinstance(a, str) and not isinstance(b, Loc):
        return SymText()
    ka, kb = kind_of(a), kind_of(b)
    if ka is None or kb is None:
        if isinstance(a, ExcValue) or isinstance(b, ExcValue):
            raise Unsupported("binop on exception value")
        if a is None or b is None:
            ip.raise_(TypeError, "unsupported operand type(s): NoneType")
        raise Unsupported("binop %s on %r, %r" % (op.__name__, type(a).__name__, type(b).__name__))
    if ka == 'bool':
        a, ka = lift(a, 'int'), 'int'
    if kb == 'bool':
        b, kb = lift(b, 'int'), 'int'
    if ka in ('bytes', 'str') or kb in ('bytes', 'str') or isinstance(ka, tuple) or isinstance(kb, tuple):
        if op is ast.Add and ka == kb:
            return SV(simp(z3.Concat(lift(a).e, lift(b).e)), ka)
        if op is ast.Mult and (ka == 'int' or kb == 'int'):
            s, n = (a, b) if kb == 'int' else (b, a)
            ok, nv = concrete_of(n)
            if ok:
                sv = lift(s)
                if nv <= 0:
                    return SV(z3.Empty(sort_of(sv.kind)), sv.kind)
                return SV(simp(z3.Concat(*[sv.e] * nv)) if nv > 1 else sv.e, sv.kind)
            oks, sval = concrete_of(s)
            if oks and len(sval) == 1:
                rep = ip.reg.get_spec('repeat_byte')
                return call_spec(ip, rep, [sval[0] if isinstance(sval, bytes) else ord(sval), n], {})
            raise Unsupported("sequence repetition with symbolic count")
        if op is ast.Mod and ka == 'str':
            raise Unsupported("string formatting with symbolic value")
        if ka != kb and op is ast.Add:
            ip.raise_(TypeError, "can't concat %s to %s" % (kind_name(kb), kind_name(ka)))
        raise Unsupported("binop %s on %s,%s" % (op.__name__, kind_name(ka), kind_name(kb)))
    x, y = I(a), I(b)
    if op is ast.Add:
        return SV(x + y, 'int')
    if op is ast.Sub:
        return SV(x - y, 'int')
    if op is ast.Mult:
        return SV(x * y, 'int')
    if op in (ast.Mod, ast.FloorDiv):
        okb, bv = concrete_of(b)
        if okb:
            if bv == 0:
                ip.raise_(ZeroDivisionError)
            if bv > 0:
                return SV(x % y if op is ast.Mod else x / y, 'int')
            return SV(simp(py_mod(x, y) if op is ast.Mod else py_div(x, y)), 'int')
        if st.merge:
            # contract code: when the path already knows the divisor to be positive, the plain SMT mod/div is Python's
            # (keeps specification terms syntactically equal to what the code computes)
            cache = st.ghost.setdefault('posdiv_cache', {})
            key = (y.get_id(), len(st.pc))
            if key not in cache:
                cache[key] = not st.feasible(y <= 0)
            if cache[key]:
                return SV(x % y if op is ast.Mod else x / y, 'int')
            return SV(py_mod(x, y) if op is ast.Mod else py_div(x, y), 'int')
        if st.branch(y == 0, "divisor == 0"):
            ip.raise_(ZeroDivisionError)
        if not st.feasible(y < 0):
            return SV(x % y if op is ast.Mod else x / y, 'int')
        return SV(py_mod(x, y) if op is ast.Mod else py_div(x, y), 'int')
    if op is ast.Pow:
        okb, bv = concrete_of(b)
        oka, av = concrete_of(a)
        if okb and isinstance(bv, int) and 0 <= bv <= 4:
            r = z3.IntVal(1)
            for _ in range(bv):
                r = r * x
            return SV(r, 'int')
        if oka and av == 2:
            p2 = ip.reg.get_spec('pow2')
            return call_spec(ip, p2, [b], {})
        raise Unsupported("general power")
    if op is ast.LShift:
        okb, bv = concrete_of(b)
        if okb:
            if bv < 0:
                ip.raise_(ValueError, "negative shift count")
            return SV(x * (1 << bv), 'int')
        p2 = ip.reg.get_spec('pow2')
        return SV(x * call_spec(ip, p2, [b], {}).e, 'int')
    if op is ast.RShift:
        okb, bv = concrete_of(b)
        if not okb and not st.merge:
            uv = st.unique_value(I(b), force=True)
            if uv is not None:
                okb, bv = True, uv
        if okb:
            if bv < 0:
                ip.raise_(ValueError, "negative shift count")
            return SV(x / (1 << bv), 'int')
        p2 = ip.reg.get_spec('pow2')
        return SV(x / call_spec(ip, p2, [b], {}).e, 'int')
    if op in (ast.BitAnd, ast.BitOr, ast.BitXor):
        return _bitop(ip, op, a, b)
    if op is ast.Div:
        raise Unsupported("true division")
    raise Unsupported("binop " + op.__name__)


def _disjoint_sum(ip, x, y):
    """x | y == x + y when both are non-negative and, for some k, one is below 2**k while the low k bits of
    the other are zero: shift-and-or assembling of words, rotations written (v << r) | (v >> (w - r)).
    The law is lean/BitOps.lean: or_disjoint_law; every side condition is proved on the path (else None)."""
    st = ip.st
    if st.feasible(z3.Or(x < 0, y < 0)):
        return None
    for small, big in ((y, x), (x, y)):
        if st.feasible(small >= (1 << 64)):
            continue
        lo, hi = 0, 64          # least k in [0, 64] with small < 2**k provable
        while lo < hi:
            mid = (lo + hi) // 2
            if st.feasible(small >= (1 << mid)):
                lo = mid + 1
            else:
                hi = mid
        if not st.feasible(big % (1 << lo) != 0):
            st.ghost.setdefault('lemmas_used', set()).add('or_disjoint')
            return SV(simp(x + y), 'int')
    return None


def _bitop(ip, op, a, b):
    oka, av = concrete_of(a)
    okb, bv = concrete_of(b)
    if oka and not okb:
        a, b, oka, okb, av, bv = b, a, okb, oka, bv, av
    x = I(a)
    if okb:
        m = bv
        if op is ast.BitAnd:
            if m == 0:
                return 0
            if m > 0 and (m & (m + 1)) == 0:
                return SV(x % (m + 1), 'int')
            if _pow2(m):
                return SV(((x / m) % 2) * m, 'int')
            if m > 0:
                # contiguous run of ones: bits [lo, hi)
                lo = (m & -m).bit_length() - 1
                if ((m >> lo) & ((m >> lo) + 1)) == 0:
                    return SV(((x / (1 << lo)) % ((m >> lo) + 1)) * (1 << lo), 'int')
            if m < 0 and ((~m) & ((~m) + 1)) == 0:
                # x & ~(2^k-1): clear low k bits
                k = (~m) + 1
                return SV(x - (x % k), 'int')
        if op is ast.BitOr:
            if m == 0:
                return a
            if _pow2(m):
                return SV(x + z3.If((x / m) % 2 == 0, m, 0), 'int')
        if op is ast.BitXor:
            if m == 0:
                return a
            if _pow2(m):
                return SV(x + z3.If((x / m) % 2 == 0, m, -m), 'int')
    if okb and isinstance(bv, int) and not isinstance(bv, bool) and bv < 0 and bin(~bv).count('1') <= 40:
        # negative literal mask m (infinitely many leading ones): its complement c = ~m is a non-negative literal, and
        # in two's complement  x == (x & m) + (x & c),  x | m == m + (x & c),  x ^ m == -(x ^ c) - 1
        c_ = ~bv
        and_c = I(_bitop(ip, ast.BitAnd, a, c_)) if c_ else z3.IntVal(0)
        if op is ast.BitAnd:
            return SV(simp(x - and_c), 'int')
        if op is ast.BitOr:
            return SV(simp(bv + and_c), 'int')
        return SV(simp(-(x + c_ - 2 * and_c) - 1), 'int')
    if okb and isinstance(bv, int) and bv >= 0 and bin(bv).count('1') <= 40:
        # constant mask: x & m is the sum of the selected bits (floor div/mod = two's complement for negatives too)
        m = bv
        bits = [b for b in range(m.bit_length()) if (m >> b) & 1]
        # group the selected bits into contiguous runs [lo, hi): x & run == ((x div 2^lo) mod 2^(hi-lo)) * 2^lo
        runs = []
        for b_ in bits:
            if runs and runs[-1][1] == b_:
                runs[-1][1] = b_ + 1
            else:
                runs.append([b_, b_ + 1])
        and_e = z3.IntVal(0)
        for lo_, hi_ in runs:
            and_e = and_e + ((x / (1 << lo_)) % (1 << (hi_ - lo_))) * (1 << lo_)
        if not ip.st.merge and len(bits) > 1:
            # when the path already fixes the masked bits, use the constant (keeps later queries linear)
            if not ip.st.feasible(and_e != 0):
                and_e = z3.IntVal(0)
            elif not ip.st.feasible(and_e != m):
                and_e = z3.IntVal(m)
        if op is ast.BitAnd:
            return SV(simp(and_e), 'int')
        if op is ast.BitOr:
            return SV(simp(x + m - and_e), 'int')
        return SV(simp(x + m - 2 * and_e), 'int')
    if op is ast.BitOr and not ip.st.merge:
        r = _disjoint_sum(ip, x, I(b))
        if r is not None:
            return r
    # general case: bounded operands through bit-vectors when bounds are known
    w = ip.st.ghost.get('bitwidth')
    if w:
        y = I(b)
        bx, by = z3.Int2BV(x, w), z3.Int2BV(y, w)
        r = {ast.BitAnd: bx & by, ast.BitOr: bx | by, ast.BitXor: bx ^ by}[op]
        lo, hi = 0, (1 << w)
        for v, e in ((a, x), (b, y)):
            if ip.st.feasible(z3.Or(e < lo, e >= hi)):
                raise Unsupported("bit operation on operand not provably within %d bits" % w)
        return SV(z3.BV2Int(r, False), 'int')
    bo = ip.reg.get_spec({ast.BitAnd: 'bit_and', ast.BitOr: 'bit_or', ast.BitXor: 'bit_xor'}[op], optional=True)
    if bo is not None:
        if os.environ.get('PYVC_NOTE_BITOPS'):     # development aid: where a bit operation stays uninterpreted
            import sys
            fr_ = ip.frames[-1] if ip.frames else None
            print("NOTE-BITOP %s in %s (top %s)" % (op.__name__, getattr(fr_, 'qual', '?'), getattr(ip, 'top_unit', '?')), file=sys.stderr, flush=True)
        return call_spec(ip, bo, [a, b], {})
    raise Unsupported("general bit operation %s" % op.__name__)


def _binop_heap(ip, op, a, b):
    st = ip.st
    for v in (a, b):
        if isinstance(v, Loc) and st.cell(v)['k'] == 'obj':
            name = {ast.Add: 'add', ast.Sub: 'sub', ast.Mult: 'mul', ast.Mod: 'mod', ast.FloorDiv: 'floordiv'}.get(op)
            if name is None:
                raise Unsupported("operator on object")
            if v is a and hasattr(st.cell(a)['cls'], '__%s__' % name):
                return ip.call_method(a, '__%s__' % name, [b], {})
            if hasattr(st.cell(b)['cls'] if isinstance(b, Loc) and st.cell(b)['k'] == 'obj' else None, '__r%s__' % name):
                return ip.call_method(b, '__r%s__' % name, [a], {})
            raise Unsupported("operator on object without dunder")
    if op is ast.Add:
        ia, ib = ip.meta_items(a), ip.meta_items(b)
        ca = st.cell(a) if isinstance(a, Loc) else None
        cb = st.cell(b) if isinstance(b, Loc) else None
        if ca and ca['k'] == 'bytearray' or cb and cb['k'] == 'bytearray':
            sa, sb = ip.seq_view(a) or lift(a), ip.seq_view(b) or lift(b)
            r = SV(simp(z3.Concat(sa.e, sb.e)), 'bytes')
            if ca and ca['k'] == 'bytearray':
                return st.alloc({'k': 'bytearray', 'data': r})
            return r
        if ca and cb and ca['k'] == 'list' and cb['k'] == 'list':
            if 'items' in ca and 'items' in cb:
                return ip.new_list(ca['items'] + cb['items'])
            sa, sb = list_as_seq(ip, a), list_as_seq(ip, b, like=None)
            return st.alloc({'k': 'list', 'seq': SV(simp(z3.Concat(sa.e, sb.e)), sa.kind)})
    if op is ast.Mult:
        if isinstance(a, Loc) and st.cell(a)['k'] == 'list' and 'items' in st.cell(a) and isinstance(b, int):
            return ip.new_list(st.cell(a)['items'] * b)
        if isinstance(a, Loc) and st.cell(a)['k'] == 'list' and len(st.cell(a).get('items', ())) == 1 and kind_of(b) == 'int' \
                and kind_of(st.cell(a)['items'][0]) == 'int':
            # idiom [x] * n with a symbolic count: the list of n copies of the integer x (spec repeat_byte)
            rb = ip.reg.get_spec('repeat_byte')
            r = call_spec(ip, rb, [st.cell(a)['items'][0], b], {})
            return st.alloc({'k': 'list', 'seq': SV(lift(r, 'bytes').e, ('seq', 'int'))})
    raise Unsupported("binop %s on heap values" % op.__name__)


def list_as_seq(ip, v, like=None, kind=None):
    """symbolic Seq view of a list cell (meta lists are lifted when element kinds agree)"""
    c = ip.st.cell(v)
    if 'seq' in c:
        return c['seq']
    items = c['items']
    if kind is None:
        ks = {kind_of(x) for x in items}
        if len(ks) != 1 or None in ks:
            raise Unsupported("cannot view heterogeneous list as sequence")
        kind = ('seq', ks.pop())
    return lift(tuple(items), kind)


# ---------------------------------------------------------------- comparison
def compare(ip, op, a, b):
    st = ip.st
    if op in (ast.Is, ast.IsNot):
        r = _identity(ip, a, b)
        return r if op is ast.Is else (not r)
    if op in (ast.Eq, ast.NotEq):
        r = equal(ip, a, b)
        if op is ast.NotEq:
            return (not r) if isinstance(r, bool) else SV(simp(z3.Not(r.e)), 'bool')
        return r
    ka, kb = kind_of(a), kind_of(b)
    if isinstance(a, Loc) and st.cell(a)['k'] == 'obj':
        name = {ast.Lt: '__lt__', ast.LtE: '__le__', ast.Gt: '__gt__', ast.GtE: '__ge__'}[op]
        return ip.call_method(a, name, [b], {})
    if ka in ('int', 'bool') and kb in ('int', 'bool'):
        x, y = lift(a, 'int').e, lift(b, 'int').e
        return SV(simp({ast.Lt: x < y, ast.LtE: x <= y, ast.Gt: x > y, ast.GtE: x >= y}[op]), 'bool')
    if ka is None or kb is None or ka != kb:
        if isinstance(a, tuple) and isinstance(b, tuple):
            return _tuple_order(ip, op, a, b)
        if (a is None or b is None) or (ka is not None and kb is not None):
            ip.raise_(TypeError, "'%s' not supported between %s and %s" % (op.__name__, kind_name(ka) if ka else type(a).__name__, kind_name(kb) if kb else type(b).__name__))
        raise Unsupported("ordering between %r and %r" % (a, b))
    if ka in ('bytes', 'str'):
        lt = ip.reg.get_spec('seq_lt', optional=True)
        if lt is None:
            raise Unsupported("ordering on sequences")
        x, y = (a, b) if op in (ast.Lt, ast.LtE) else (b, a)
        strict = op in (ast.Lt, ast.Gt)
        r = call_spec(ip, lt, [x, y], {})
        if strict:
            return r
        return SV(simp(z3.Or(r.e, lift(a).e == lift(b).e)), 'bool')
    raise Unsupported("ordering on " + kind_name(ka))


def _tuple_order(ip, op, a, b):
    if len(a) != len(b):
        raise Unsupported("tuple ordering of different lengths")
    strict = op in (ast.Lt, ast.Gt)
    base = ast.Lt if op in (ast.Lt, ast.LtE) else ast.Gt
    res = z3.BoolVal(not strict)
    for x, y in reversed(list(zip(a, b))):
        lt = ip.zbool(compare(ip, base, x, y))
        eq = ip.zbool(equal(ip, x, y))
        res = z3.Or(lt, z3.And(eq, res))
    return SV(simp(res), 'bool')


def _identity(ip, a, b):
    if isinstance(a, Loc) or isinstance(b, Loc):
        return isinstance(a, Loc) and isinstance(b, Loc) and a.id == b.id
    if isinstance(a, SV) or isinstance(b, SV):
        if a is None or b is None:
            return False
        ka, kb = kind_of(a), kind_of(b)
        if ka == 'bool' or kb == 'bool':
            if ka == kb:
                return SV(simp(lift(a).e == lift(b).e), 'bool')
            if ka != kb and isinstance(a, SV) != isinstance(b, SV):
                other = b if isinstance(a, SV) else a
                if not isinstance(other, bool):
                    return False
        raise Unsupported("identity test on symbolic value")
    return a is b


def equal(ip, a, b):
    st = ip.st
    from . import group as G_
    if G_.is_pt(a) or G_.is_pt(b):
        pa, pb = G_.pt_of(ip, a), G_.pt_of(ip, b)
        if pa is not None and pb is not None:
            return SV(simp(pa.e == pb.e), 'bool')
        other = b if pa is not None else a
        mine = pa if pa is not None else pb
        if isinstance(other, tuple) and len(other) == 2:
            f = G_.F()
            if other[0] is None and other[1] is None:
                return SV(simp(mine.e == f['INF']), 'bool')
            if other[0] is None or other[1] is None:
                return False
            return SV(simp(z3.And(mine.e != f['INF'], f['xc'](mine.e) == lift(other[0], 'int').e, f['yc'](mine.e) == lift(other[1], 'int').e)), 'bool')
        return False
    if isinstance(a, Loc) or isinstance(b, Loc):
        return _equal_heap(ip, a, b)
    if isinstance(a, tuple) or isinstance(b, tuple):
        if isinstance(a, tuple) and isinstance(b, tuple):
            if len(a) != len(b):
                return False
            cs = [equal(ip, x, y) for x, y in zip(a, b)]
            if all(isinstance(c, bool) for c in cs):
                return all(cs)
            return SV(simp(z3.And(*[ip.zbool(c) for c in cs])), 'bool')
        other = b if isinstance(a, tuple) else a
        tup = a if isinstance(a, tuple) else b
        if isinstance(other, SV) and other.kind[0] == 'seq':
            return SV(simp(other.e == lift(tup, other.kind).e), 'bool')
        if isinstance(other, SV) and other.kind[0] == 'tup':
            return SV(simp(other.e == lift(tup, other.kind).e), 'bool')
        return False
    ka, kb = kind_of(a), kind_of(b)
    if ka is None or kb is None:
        if not isinstance(a, SV) and not isinstance(b, SV):
            return a == b
        return False      # symbolic int/bytes/... never equals None / a class / a function
    if ka in ('int', 'bool') and kb in ('int', 'bool'):
        if ka == kb:
            return SV(simp(lift(a).e == lift(b).e), 'bool')
        return SV(simp(lift(a, 'int').e == lift(b, 'int').e), 'bool')
    if ka != kb:
        return False
    return SV(simp(lift(a).e == lift(b).e), 'bool')


def _equal_heap(ip, a, b):
    st = ip.st
    if isinstance(a, Loc) and isinstance(b, Loc) and a.id == b.id:
        return True
    ca = st.cell(a) if isinstance(a, Loc) else None
    cb = st.cell(b) if isinstance(b, Loc) else None
    for c, me, other in ((ca, a, b), (cb, b, a)):
        if c and c['k'] == 'obj':
            cls = c['cls']
            if getattr(cls, '__eq__', object.__eq__) is not object.__eq__:
                return ip.call_method(me, '__eq__', [other], {})
            return False
    ka = ca['k'] if ca else None
    kb = cb['k'] if cb else None
    if 'bytearray' in (ka, kb):
        sa = ip.seq_view(a) if ca else (lift(a) if kind_of(a) == 'bytes' else None)
        sb = ip.seq_view(b) if cb else (lift(b) if kind_of(b) == 'bytes' else None)
        if sa is None or sb is None:
            return False
        return SV(simp(sa.e == sb.e), 'bool')
    if ka == 'list' and kb == 'list':
        if 'items' in ca and 'items' in cb:
            return equal(ip, tuple(ca['items']), tuple(cb['items']))
        sa = list_as_seq(ip, a, kind=cb['seq'].kind if 'seq' in cb else None)
        sb = list_as_seq(ip, b, kind=sa.kind)
        return SV(simp(sa.e == sb.e), 'bool')
    if ka == 'list' or kb == 'list':
        lst, other = (a, b) if ka == 'list' else (b, a)
        if isinstance(other, SV) and other.kind[0] == 'seq':
            # contract language: list cell vs sequence value
            s = list_as_seq(ip, lst, kind=other.kind)
            return SV(simp(s.e == other.e), 'bool')
        if isinstance(other, list):
            return equal(ip, tuple(ip.meta_items(lst)), tuple(other)) if 'items' in st.cell(lst) else False
        return False
    if ka == 'dict' and kb == 'dict':
        da, db = ca['d'], cb['d']
        if set(da) != set(db):
            return False
        return equal(ip, tuple(da[k] for k in da), tuple(db[k] for k in da))
    if ka == 'dict' and isinstance(b, dict) or kb == 'dict' and isinstance(a, dict):
        d1 = ca['d'] if ka == 'dict' else cb['d']
        d2 = b if ka == 'dict' else a
        if set(d1) != set(d2):
            return False
        return equal(ip, tuple(d1[k] for k in d1), tuple(d2[k] for k in d1))
    if ka == 'set' and kb == 'set':
        raise Unsupported("set equality")
    return False


def contains(ip, container, x):
    st = ip.st
    items = None
    if isinstance(container, Loc):
        c = st.cell(container)
        if c['k'] == 'dict':
            items = list(c['d'].keys())
        elif c['k'] in ('list', 'set') and 'items' in c:
            items = c['items']
        elif c['k'] == 'obj':
            return ip.call_method(container, '__contains__', [x], {})
        elif c['k'] == 'set' and 'elems' in c:
            e_ = c['elems']
            return SV(simp(z3.Contains(e_.e, z3.Unit(lift(x, e_.kind[1]).e))), 'bool')
    elif isinstance(container, (tuple, list, set, frozenset, dict, range)) or type(container).__name__ in ('dict_keys',):
        if not has_sym(x) and not has_sym(tuple(container)) if not isinstance(container, range) else not has_sym(x):
            return x in container
        if isinstance(container, range):
            xv = lift(x, 'int').e
            if container.step != 1:
                raise Unsupported("symbolic membership in stepped range")
            return SV(simp(z3.And(xv >= container.start, xv < container.stop)), 'bool')
        items = list(container)
    if items is not None:
        cs = [equal(ip, x, y) for y in items]
        if all(isinstance(c, bool) for c in cs):
            return any(cs)
        return SV(simp(z3.Or(*[ip.zbool(c) for c in cs])), 'bool')
    s = ip.seq_view(container)
    if s is None and kind_of(container) in ('bytes', 'str'):
        s = lift(container)
    if s is not None:
        kx = kind_of(x)
        if s.kind in ('bytes', 'str') and kx == s.kind:
            return SV(simp(z3.Contains(s.e, lift(x).e)), 'bool')
        if s.kind == 'bytes' and kx == 'int':
            return SV(simp(z3.Contains(s.e, z3.Unit(lift(x).e))), 'bool')
        if s.kind[0] == 'seq':
            return SV(simp(z3.Contains(s.e, z3.Unit(lift(x, s.kind[1]).e))), 'bool')
    if not has_sym(container) and not has_sym(x):
        return x in container
    raise Unsupported("membership test in %r" % (container,))


def dedupe(ip, items):
    out = []
    for x in items:
        r = contains(ip, tuple(out), x) if out else False
        if isinstance(r, bool):
            if not r:
                out.append(x)
        else:
            if not ip.st.branch(r.e, "set member duplicate"):
                out.append(x)
    return out


# ---------------------------------------------------------------- sequences
def seq_peel_last(e, k=1):
    """if the sequence expression syntactically ends in k unit elements, return (prefix expr, [elements]) else None"""
    e = simp(e)
    if not z3.is_app(e):
        return None
    kind = e.decl().kind()
    if kind == z3.Z3_OP_SEQ_UNIT and k == 1:
        return z3.Empty(e.sort()), [e.arg(0)]
    if kind != z3.Z3_OP_SEQ_CONCAT:
        return None
    args = [e.arg(i) for i in range(e.num_args())]
    flat = []
    stack = list(reversed(args))
    while stack:
        a = stack.pop()
        if z3.is_app(a) and a.decl().kind() == z3.Z3_OP_SEQ_CONCAT:
            stack.extend(reversed([a.arg(i) for i in range(a.num_args())]))
        else:
            flat.append(a)
    elems = []
    while len(elems) < k and flat and z3.is_app(flat[-1]) and flat[-1].decl().kind() == z3.Z3_OP_SEQ_UNIT:
        elems.append(flat.pop().arg(0))
    if len(elems) < k:
        return None
    prefix = z3.Empty(e.sort()) if not flat else (flat[0] if len(flat) == 1 else z3.Concat(*flat))
    return prefix, list(reversed(elems))


def seq_len(ip, v):
    if isinstance(v, HexText):
        return SV(simp(hexlen(ip, v.v) + v.pad), 'int')
    if isinstance(v, SV):
        if v.kind in ('bytes', 'str') or v.kind[0] == 'seq':
            return SV(simp(z3.Length(v.e)), 'int')
        raise Unsupported("len of " + kind_name(v.kind))
    if isinstance(v, Loc):
        c = ip.st.cell(v)
        k = c['k']
        if k == 'list':
            return len(c['items']) if 'items' in c else SV(simp(z3.Length(c['seq'].e)), 'int')
        if k == 'bytearray':
            return seq_len(ip, c['data'])
        if k == 'dict':
            return len(c['d'])
        if k == 'set':
            if 'elems' in c:
                raise Unsupported("len of an abstract set")
            return len(c['items'])
        if k == 'obj':
            return ip.call_method(v, '__len__', [], {})
        raise Unsupported("len of cell " + k)
    try:
        return len(v)
    except TypeError as ex:
        ip.raise_(TypeError, str(ex))


def typing_facts(ip, v):
    """facts that hold of every Python value of this kind (sequence lengths are bounded by sys.maxsize)"""
    if isinstance(v, SV) and (v.kind in ('bytes', 'str') or v.kind[0] == 'seq'):
        e = simp(v.e)
        if not (z3.is_app(e) and e.decl().kind() in (z3.Z3_OP_SEQ_UNIT, z3.Z3_OP_SEQ_EMPTY)):
            ip.st.assume_def(z3.Length(v.e) < (1 << 62))


def elem_value(ip, s, idx):
    """element idx (z3 Int, assumed in range) of symbolic sequence s"""
    e = simp(s.e[idx])
    if s.kind == 'bytes':
        ip.st.assume_def(z3.And(e >= 0, e < 256))
        return SV(e, 'int')
    if s.kind == 'str':
        return SV(simp(z3.SubSeq(s.e, idx, 1)), 'str')
    r = SV(e, s.kind[1])
    typing_facts(ip, r)
    return r


def index(ip, v, i):
    st = ip.st
    from . import group as G_
    if G_.is_pt(v) or (isinstance(v, Loc) and st.cell(v)['k'] == 'obj' and '_pt' in st.cell(v)['f']):
        ok, iv = concrete_of(i)
        if not ok or iv not in (0, 1, -1, -2):
            raise Unsupported("index into a point")
        return G_.coord(ip, G_.pt_of(ip, v), iv % 2)
    if isinstance(v, Loc):
        c = st.cell(v)
        k = c['k']
        if k == 'dict':
            if has_sym(i):
                return _dict_sym_get(ip, c, i, None, True)
            if i in c['d']:
                return c['d'][i]
            ip.raise_(KeyError, i)
        if k == 'list' and 'items' in c:
            return _meta_index(ip, c['items'], i)
        if k == 'obj':
            return ip.call_method(v, '__getitem__', [i], {})
        s = ip.seq_view(v)
        if s is None:
            raise Unsupported("index into cell " + k)
        if c.get('byte_elems') and s.kind == ('seq', 'int'):
            s = SV(s.e, 'bytes')         # same sequence, read as bytes: element accesses carry the 0..255 typing fact
        v = s
    if isinstance(v, (tuple, list)):
        return _meta_index(ip, v, i)
    if isinstance(v, SV):
        if v.kind[0] == 'tup':
            ok, iv = concrete_of(i)
            if not ok:
                raise Unsupported("symbolic index into tuple value")
            return SV(simp(sort_of(v.kind).accessor(0, iv)(v.e)), v.kind[1][iv])
        n = z3.Length(v.e)
        iv = lift(i, 'int').e
        idx = simp(z3.If(iv < 0, iv + n, iv))
        inb = z3.And(idx >= 0, idx < n)
        if st.merge:
            return elem_value(ip, v, idx)
        if not st.branch(inb, "index in range"):
            ip.raise_(IndexError, "index out of range")
        return elem_value(ip, v, idx)
    if has_sym(i):
        if isinstance(v, (bytes, str)):
            return index(ip, lift(v), i)
        if isinstance(v, dict):
            return _native_dict_sym_get(ip, v, i)
        raise Unsupported("symbolic index into native %s" % type(v).__name__)
    try:
        return v[i]
    except (IndexError, KeyError, TypeError) as ex:
        ip.raise_(type(ex), *ex.args)


def _native_dict_sym_get(ip, d, key):
    st = ip.st
    if isinstance(key, SV) and key.kind == 'int' and not st.merge and len(d) > 4:
        uv = st.unique_value(key.e)
        if uv is not None:
            if uv in d:
                return d[uv]
            ip.raise_(KeyError, uv)
    for k in d:
        r = equal(ip, key, k)
        if isinstance(r, bool):
            if r:
                return d[k]
            continue
        if st.branch(r.e, "key == %r" % (k,)):
            return d[k]
    ip.raise_(KeyError, "symbolic key")


def native_dict_get(ip, d, key, default):
    """dict.get on a module-level (native, read-only) dict with a symbolic key"""
    st = ip.st
    if isinstance(key, SV) and key.kind == 'int' and not st.merge and len(d) > 4:
        uv = st.unique_value(key.e)
        if uv is not None:
            return d.get(uv, default)
    if st.merge:
        res = default
        for k in reversed(list(d)):
            r = equal(ip, key, k)
            if isinstance(r, bool):
                if r:
                    res = d[k]
                continue
            res = ite(ip, r.e, d[k], res)
        return res
    for k in d:
        r = equal(ip, key, k)
        if isinstance(r, bool):
            if r:
                return d[k]
            continue
        if st.branch(r.e, "key == %r" % (k,)):
            return d[k]
    return default


def _dict_sym_get(ip, c, key, default, raise_missing):
    st = ip.st
    for k, val in c['d'].items():
        r = equal(ip, key, k)
        if isinstance(r, bool):
            if r:
                return val
            continue
        if st.branch(r.e, "key == %r" % (k,)):
            return val
    if raise_missing:
        ip.raise_(KeyError, "symbolic key")
    return default


def _meta_index(ip, items, i):
    ok, iv = concrete_of(i)
    if ok:
        if isinstance(iv, bool):
            iv = int(iv)
        if not isinstance(iv, int):
            ip.raise_(TypeError, "list indices must be integers")
        if -len(items) <= iv < len(items):
            return items[iv]
        ip.raise_(IndexError, "index out of range")
    st = ip.st
    n = len(items)
    iv = lift(i, 'int').e
    if st.merge:
        if n == 0:
            raise Unsupported("symbolic index into empty meta list in merge mode")
        res = items[n - 1]
        for k in range(n - 2, -1, -1):
            res = ite(ip, z3.Or(iv == k, iv == k - n), items[k], res)
        return res
    if n > 64:
        u = st.unique_value(iv, force=True, light=True)      # a dispatch table indexed by a value the path pins (hybrid case enumeration)
        if u is not None:
            if -n <= u < n:
                return items[u]
            ip.raise_(IndexError, "index out of range")
        raise Unsupported("symbolic index into long meta list")
    for k in range(n):
        if st.branch(z3.Or(iv == k, iv == k - n), "index == %d" % k):
            return items[k]
    ip.raise_(IndexError, "index out of range")


def _nonneg(ip, e):
    """is the z3 int e provably >= 0 on this path (cheap syntactic test first)"""
    e = simp(e)
    if z3.is_int_value(e):
        return e.as_long() >= 0
    if z3.is_app(e) and e.decl().kind() == z3.Z3_OP_SEQ_LENGTH:
        return True
    cache = ip.st.ghost.setdefault('nonneg_cache', {})
    k = e.get_id()
    if k not in cache:
        cache[k] = (not ip.st.feasible(e < 0), len(ip.st.pc))
    return cache[k][0]


def _norm_bounds(n, lo, hi, ip=None):
    """(offset, end) for seq.extract; SMT extract already truncates at the end and
    returns empty for offset >= len or length <= 0, so only negative indices need care"""
    def norm(x, default):
        if x is None:
            return default
        x = lift(x, 'int').e
        if ip is not None and _nonneg(ip, x):
            return x
        x = z3.If(x < 0, x + n, x)
        return z3.If(x < 0, 0, x)
    l, h = norm(lo, z3.IntVal(0)), norm(hi, n)
    return simp(l), simp(h)


def slice_(ip, v, lo, hi, step=None):
    st = ip.st
    if step is not None:
        if has_sym(v) or has_sym(lo) or has_sym(hi) or has_sym(step):
            if step == -1 and lo is None and hi is None:
                items = ip.meta_items(v)
                if items is not None:
                    r = list(reversed(items))
                    return ip.new_list(r) if isinstance(v, Loc) else tuple(r)
                s = ip.seq_view(v)
                if s is not None:
                    rev = ip.reg.get_spec('seq_reverse')
                    return call_spec(ip, rev, [s], {})
            raise Unsupported("extended slice on symbolic value")
        return v[lo:hi:step]
    if isinstance(v, Loc):
        c = st.cell(v)
        if c['k'] == 'list' and 'items' in c:
            if has_sym(lo) or has_sym(hi):
                raise Unsupported("symbolic slice bounds on meta list")
            return ip.new_list(c['items'][lo:hi])
        if c['k'] == 'obj':
            raise Unsupported("slice of object")
        s = ip.seq_view(v)
        if s is None:
            raise Unsupported("slice of cell")
        r = slice_(ip, s, lo, hi)
        if c['k'] == 'bytearray':
            return st.alloc({'k': 'bytearray', 'data': r if isinstance(r, SV) else lift(r)})
        return st.alloc({'k': 'list', 'seq': r})
    if isinstance(v, (tuple, list)) and (has_sym(lo) or has_sym(hi)):
        raise Unsupported("symbolic slice bounds on tuple")
    if not isinstance(v, SV):
        if has_sym(lo) or has_sym(hi):
            v = lift(v)
        else:
            try:
                return v[lo:hi]
            except TypeError as ex:
                ip.raise_(TypeError, str(ex))
    n = z3.Length(v.e)
    l, h = _norm_bounds(n, lo, hi, ip)
    return SV(simp(z3.SubSeq(v.e, l, h - l)), v.kind)


def set_item(ip, base, i, v):
    st = ip.st
    if isinstance(base, Loc):
        c = st.cell(base)
        k = c['k']
        if k == 'dict':
            if has_sym(i):
                raise Unsupported("dict store with symbolic key")
            c['d'] = dict(c['d'])
            c['d'][i] = v
            return
        if k == 'list' and 'items' in c:
            ok, iv = concrete_of(i)
            if not ok:
                raise Unsupported("symbolic index store into meta list")
            if not -len(c['items']) <= iv < len(c['items']):
                ip.raise_(IndexError, "assignment index out of range")
            c['items'] = list(c['items'])
            c['items'][iv] = v
            return
        if k == 'obj':
            return ip.call_method(base, '__setitem__', [i, v], {})
        if k in ('bytearray', 'list'):
            c.pop('byte_elems', None)
            fld = 'data' if k == 'bytearray' else 'seq'
            s = c[fld] if isinstance(c[fld], SV) else lift(c[fld])
            n = z3.Length(s.e)
            iv = lift(i, 'int').e
            idx = simp(z3.If(iv < 0, iv + n, iv))
            if not st.branch(z3.And(idx >= 0, idx < n), "store index in range"):
                ip.raise_(IndexError, "assignment index out of range")
            if k == 'bytearray':
                x = lift(v, 'int').e
                if not st.branch(z3.And(x >= 0, x < 256), "byte in range(256)"):
                    ip.raise_(ValueError, "byte must be in range(0, 256)")
                u = z3.Unit(x)
            else:
                u = z3.Unit(lift(v, s.kind[1]).e)
            c[fld] = SV(simp(z3.Concat(z3.SubSeq(s.e, 0, idx), u, z3.SubSeq(s.e, idx + 1, n - idx - 1))), s.kind)
            return
    if isinstance(base, dict) or isinstance(base, list):
        raise Unsupported("store into native (module-level) container")
    raise Unsupported("item store on %r" % (base,))


def set_slice(ip, base, lo, hi, v):
    st = ip.st
    if isinstance(base, Loc):
        c = st.cell(base)
        if c['k'] == 'list' and 'items' in c and not has_sym(lo) and not has_sym(hi):
            items = list(c['items'])
            items[lo:hi] = ip.iter_values(v)
            c['items'] = items
            return
    raise Unsupported("slice assignment")


def del_item(ip, base, i):
    if isinstance(base, Loc):
        c = ip.st.cell(base)
        if c['k'] == 'dict' and not has_sym(i):
            if i not in c['d']:
                ip.raise_(KeyError, i)
            c['d'] = {k: x for k, x in c['d'].items() if k != i}
            return
        if c['k'] == 'list':
            cell_method(ip, base, 'pop', [i], {})
            return
    raise Unsupported("del item")


def del_slice(ip, base, lo, hi):
    if isinstance(base, Loc):
        c = ip.st.cell(base)
        if c['k'] == 'list' and 'items' in c and not has_sym(lo) and not has_sym(hi):
            items = list(c['items'])
            del items[lo:hi]
            c['items'] = items
            return
        if c['k'] == 'list' and 'seq' in c:
            s = c['seq']
            n = z3.Length(s.e)
            l, h = _norm_bounds(n, lo, hi, ip)
            h = simp(z3.If(h > n, n, h))
            l = simp(z3.If(l > n, n, l))
            h2 = simp(z3.If(h > l, h, l))
            c['seq'] = SV(simp(z3.Concat(z3.SubSeq(s.e, 0, l), z3.SubSeq(s.e, h2, n - h2))), s.kind)
            return
    raise Unsupported("del slice")


def inplace_add(ip, loc, v):
    c = ip.st.cell(loc)
    if c['k'] == 'list':
        cell_method(ip, loc, 'extend', [v], {})
        return
    if c['k'] == 'bytearray':
        cell_method(ip, loc, 'extend', [v], {})
        return
    if c['k'] == 'obj':
        raise Unsupported("+= on object")
    raise Unsupported("+= on cell")


def unpack_symbolic(ip, v, n):
    """unpack a symbolic sequence value into n element values (branches on its length)"""
    st = ip.st
    s = ip.seq_view(v)
    if s is None:
        if isinstance(v, SV) and v.kind[0] == 'tup':
            if len(v.kind[1]) != n:
                ip.raise_(ValueError, "unpack arity")
            return [index(ip, v, k) for k in range(n)]
        if v is None or isinstance(v, (int, bool)) or isinstance(v, SV):
            ip.raise_(TypeError, "cannot unpack non-iterable")
        raise Unsupported("unpack of %r" % (v,))
    if not st.branch(z3.Length(s.e) == n, "unpack length == %d" % n):
        ip.raise_(ValueError, "unpack: wrong number of values")
    return [elem_value(ip, s, z3.IntVal(k)) for k in range(n)]


def iter_symbolic_unrolled(ip, v):
    """iteration over a symbolic sequence whose length can be decided on this path"""
    from . import group as G_
    P = G_.pt_of(ip, v)
    if P is not None:
        return [G_.coord(ip, P, 0), G_.coord(ip, P, 1)]
    s = ip.seq_view(v)
    if s is None:
        if isinstance(v, Loc) and ip.st.cell(v)['k'] == 'obj':
            r = ip.call_method(v, '__iter__', [], {})
            return ip.iter_values(r)
        raise Unsupported("iteration over %r" % (v,))
    n = simp(z3.Length(s.e))
    if z3.is_int_value(n):
        return [elem_value(ip, s, z3.IntVal(k)) for k in range(n.as_long())]
    bound = ip.st.ghost.get('unroll_bound')
    if bound is None:
        raise Unsupported("iteration over sequence of symbolic length (needs invariant)")
    for k in range(bound + 1):
        if ip.st.branch(n == k, "len == %d" % k):
            return [elem_value(ip, s, z3.IntVal(j)) for j in range(k)]
    raise Unsupported("sequence longer than unroll bound")


from .builtins_model import (lookup_builtin, cell_method, native_call, native_attr, native_constructible, int_to_bytes_model)  # noqa: E402


def int_to_bytes_fn():
    pass
