"""Models of Python builtins and library calls used by the verified units."""
import ast
import binascii
import builtins
import hashlib
import hmac
import io
import struct
import types
import z3

from .values import (SV, Loc, Unsupported, lift, kind_of, fresh, simp, concrete_of, has_sym,
                     sort_of, IntSeq, RecType, kind_name, bytes_lit)
from .state import PathEnd, PyRaise

_B = {}


def builtin(*fs):
    def deco(h):
        for f in fs:
            try:
                _B[f] = h
            except TypeError:
                _B[id(f)] = h
        return h
    return deco


def lookup_builtin(f):
    try:
        return _B.get(f)
    except TypeError:
        return None


def _M():
    from . import models
    return models


def native_constructible(cls):
    return True


def native_call(ip, f, args, kw):
    """call a real Python callable on fully concrete arguments; exceptions become PyRaise"""
    import logging as _logging
    if isinstance(getattr(f, '__self__', None), _logging.Logger):
        return None          # logging has no semantic effect
    args = [ _to_native(ip, a) for a in args]
    kw = {k: _to_native(ip, v) for k, v in kw.items()}
    try:
        r = f(*args, **kw)
    except Unsupported:
        raise
    except PathEnd:
        raise
    except PyRaise:
        raise
    except Exception as ex:
        ip.raise_(type(ex), *ex.args)
    return _from_native(ip, r)


def _to_native(ip, v):
    from .interp import Closure
    if isinstance(v, Closure):
        def thunk(*a, **k):
            r = ip.call_closure(v, list(a), k)
            if has_sym(r):
                raise Unsupported("closure returned symbolic value to native code")
            return r
        return thunk
    return v


def _from_native(ip, r):
    if isinstance(r, bytearray):
        return ip.st.alloc({'k': 'bytearray', 'data': lift(bytes(r))})
    if isinstance(r, list):
        return ip.new_list([_from_native(ip, x) for x in r])
    if isinstance(r, io.BytesIO):
        return ip.st.alloc({'k': 'bytesio', 'data': lift(r.getvalue()), 'pos': r.tell(), 'append': False})
    if type(r) is dict:
        return ip.st.alloc({'k': 'dict', 'd': {k: _from_native(ip, x) for k, x in r.items()}})
    if type(r) is set:
        return ip.st.alloc({'k': 'set', 'items': list(r)})
    return r


def native_attr(ip, v, name):
    return NotImplemented


# ---------------------------------------------------------------- simple builtins
@builtin(len)
def _len(ip, args, kw):
    return _M().seq_len(ip, args[0])


@builtin(ord)
def _ord(ip, args, kw):
    v = args[0]
    s = ip.seq_view(v)
    if s is None:
        if isinstance(v, (bytes, str)):
            if len(v) != 1:
                ip.raise_(TypeError, "ord() expected a character")
            return ord(v)
        ip.raise_(TypeError, "ord() expected string of length 1")
    if ip.st.merge:
        return _M().elem_value(ip, s, z3.IntVal(0)) if s.kind == 'bytes' else SV(simp(s.e[0]), 'int')
    if not ip.st.branch(z3.Length(s.e) == 1, "ord: len == 1"):
        ip.raise_(TypeError, "ord() expected a character, but string of other length found")
    if s.kind == 'str':
        return SV(simp(s.e[0]), 'int')
    return _M().elem_value(ip, s, z3.IntVal(0))


@builtin(chr)
def _chr(ip, args, kw):
    v = args[0]
    if not has_sym(v):
        return chr(v)
    return SV(z3.Unit(lift(v, 'int').e), 'str')


@builtin(bytes)
def _bytes(ip, args, kw):
    if not args:
        return b""
    v = args[0]
    if isinstance(v, Loc):
        c = ip.st.cell(v)
        if c['k'] == 'bytearray':
            d = c['data']
            ok, cv = concrete_of(d)
            return cv if ok else d
        if c['k'] == 'list':
            if 'items' in c:
                return _bytes_from_items(ip, c['items'])
            if c['seq'].kind == ('seq', 'int'):
                return SV(c['seq'].e, 'bytes')
        if c['k'] == 'obj':
            return ip.call_method(v, '__bytes__', [], {})
        raise Unsupported("bytes() of cell")
    if isinstance(v, (tuple, list)):
        return _bytes_from_items(ip, list(v))
    if isinstance(v, SV):
        if v.kind == 'bytes':
            return v
        if v.kind == 'int':
            z = ip.reg.get_spec('repeat_byte')
            if not ip.st.merge and ip.st.branch(v.e < 0, "bytes(n): n < 0"):
                ip.raise_(ValueError, "negative count")
            return _M().call_spec(ip, z, [0, v], {})
        if v.kind == ('seq', 'int') and ip.st.merge:
            return SV(v.e, 'bytes')       # in specification code: a sequence of byte values read as a byte string
        raise Unsupported("bytes() of " + kind_name(v.kind))
    return native_call(ip, bytes, args, kw)


def _bytes_from_items(ip, items):
    if not has_sym(items):
        return native_call(ip, bytes, [list(items)], {})
    us = []
    for x in items:
        xv = lift(x, 'int').e
        if not ip.st.merge:
            if not ip.st.branch(z3.And(xv >= 0, xv < 256), "bytes element in range(256)"):
                ip.raise_(ValueError, "bytes must be in range(0, 256)")
        us.append(z3.Unit(xv))
    return SV(simp(z3.Concat(*us)) if len(us) > 1 else us[0], 'bytes')


@builtin(bytearray)
def _bytearray(ip, args, kw):
    v = _bytes(ip, args, kw) if args else b""
    return ip.st.alloc({'k': 'bytearray', 'data': v if isinstance(v, SV) else lift(v)})


@builtin(int)
def _int(ip, args, kw):
    if not args:
        return 0
    v = args[0]
    if isinstance(v, _M().HexOfBytes):
        base = args[1] if len(args) > 1 else kw.get('base', 10)
        if base != 16:
            raise Unsupported("int(hex text) with base != 16")
        bs = v.b
        if not ip.st.merge and ip.st.branch(z3.Length(bs.e) == 0, "hex text empty"):
            ip.raise_(ValueError, "invalid literal for int() with base 16: b''")
        bv = ip.reg.get_spec('be_value')
        return _M().call_spec(ip, bv, [bs], {})
    if isinstance(v, SV):
        if v.kind == 'int' and len(args) == 1:
            return v
        if v.kind == 'bool':
            return lift(v, 'int')
        if v.kind == 'str':
            base = args[1] if len(args) > 1 else kw.get('base', 10)
            sp = ip.reg.get_spec('parse_int_str', optional=True)
            if sp is None:
                raise Unsupported("int(str)")
            return sp.special(ip, v, base)
        raise Unsupported("int() of " + kind_name(v.kind))
    return native_call(ip, int, args, kw)


@builtin(bool)
def _bool(ip, args, kw):
    if not args:
        return False
    t = ip.truth(args[0])
    return t if isinstance(t, bool) else SV(simp(t), 'bool')


@builtin(abs)
def _abs(ip, args, kw):
    v = args[0]
    if isinstance(v, SV):
        return SV(simp(z3.If(v.e >= 0, v.e, -v.e)), 'int')
    return abs(v)


def _minmax(ip, args, kw, is_min):
    items = list(args) if len(args) > 1 else ip.iter_values(args[0])
    if kw:
        raise Unsupported("min/max with key")
    if not items:
        ip.raise_(ValueError, "min/max of empty sequence")
    if not has_sym(items):
        return (min if is_min else max)(items)
    res = items[0]
    for x in items[1:]:
        c = _M().compare(ip, ast.Lt if is_min else ast.Gt, x, res)
        t = ip.truth(c)
        res = (x if t else res) if isinstance(t, bool) else _M().ite(ip, t, x, res)
    return res


@builtin(min)
def _min(ip, args, kw):
    return _minmax(ip, args, kw, True)


@builtin(max)
def _max(ip, args, kw):
    return _minmax(ip, args, kw, False)


@builtin(divmod)
def _divmod(ip, args, kw):
    a, b = args
    return (ip.binop(ast.FloorDiv, a, b), ip.binop(ast.Mod, a, b))


@builtin(pow)
def _pow(ip, args, kw):
    if not has_sym(args):
        return native_call(ip, pow, args, kw)
    if len(args) == 3:
        sp = ip.reg.get_spec('powmod')
        return _M().call_spec(ip, sp, list(args), {})
    return ip.binop(ast.Pow, args[0], args[1])


@builtin(range)
def _range(ip, args, kw):
    if not has_sym(args):
        return native_call(ip, range, args, kw)
    return SymRange(*args)


class SymRange:
    def __init__(self, *a):
        if len(a) == 1:
            self.start, self.stop, self.step = 0, a[0], 1
        elif len(a) == 2:
            self.start, self.stop, self.step = a[0], a[1], 1
        else:
            self.start, self.stop, self.step = a
        if has_sym(self.step):
            raise Unsupported("range with symbolic step")


@builtin(isinstance)
def _isinstance(ip, args, kw):
    v, t = args
    ts = t if isinstance(t, tuple) else (t,)
    if isinstance(v, SV):
        py = {'int': int, 'bool': bool, 'bytes': bytes, 'str': str}.get(v.kind)
        if py is None:
            if v.kind[0] == 'rec':
                return any(issubclass(v.kind[1].cls, x) for x in ts)
            if v.kind[0] == 'seq':
                return any(issubclass(list, x) for x in ts)
            return False
        return any(issubclass(py, x) for x in ts)
    if isinstance(v, Loc):
        c = ip.st.cell(v)
        py = {'list': list, 'bytearray': bytearray, 'dict': dict, 'set': set, 'bytesio': io.BytesIO}.get(c['k'])
        if c['k'] == 'obj':
            py = c['cls']
        return py is not None and any(issubclass(py, x) for x in ts)
    ev = _M().ExcValue
    if isinstance(v, ev):
        return any(issubclass(v.cls, x) for x in ts)
    return isinstance(v, t)


@builtin(issubclass)
def _issubclass(ip, args, kw):
    return issubclass(*args)


@builtin(type)
def _type(ip, args, kw):
    if len(args) != 1:
        raise Unsupported("type() with 3 arguments")
    v = args[0]
    if isinstance(v, SV):
        return {'int': int, 'bool': bool, 'bytes': bytes, 'str': str}.get(v.kind) or (v.kind[1].cls if v.kind[0] == 'rec' else list)
    if isinstance(v, Loc):
        c = ip.st.cell(v)
        if c['k'] == 'obj':
            return c['cls']
        return {'list': list, 'bytearray': bytearray, 'dict': dict, 'set': set, 'bytesio': io.BytesIO}[c['k']]
    return type(v)


@builtin(tuple)
def _tuple(ip, args, kw):
    if not args:
        return ()
    return tuple(ip.iter_values(args[0]))


@builtin(list)
def _list(ip, args, kw):
    if not args:
        return ip.new_list([])
    v = args[0]
    if isinstance(v, Loc) and ip.st.cell(v)['k'] == 'list' and 'seq' in ip.st.cell(v):
        return ip.st.alloc({'k': 'list', 'seq': ip.st.cell(v)['seq']})
    if isinstance(v, SV) and v.kind[0] == 'seq':
        return ip.st.alloc({'k': 'list', 'seq': v})
    if isinstance(v, SV) and v.kind == 'bytes':
        # the list of the byte values of a byte string: its elements are known to lie in 0..255 until the list is changed
        return ip.st.alloc({'k': 'list', 'seq': SV(v.e, ('seq', 'int')), 'byte_elems': True})
    return ip.new_list(ip.iter_values(v))


@builtin(set, frozenset)
def _set(ip, args, kw):
    items = ip.iter_values(args[0]) if args else []
    return ip.st.alloc({'k': 'set', 'items': _M().dedupe(ip, items)})


@builtin(dict)
def _dict(ip, args, kw):
    d = {}
    if args:
        v = args[0]
        if isinstance(v, Loc) and ip.st.cell(v)['k'] == 'dict':
            d.update(ip.st.cell(v)['d'])
        elif isinstance(v, dict):
            d.update(v)
        else:
            for kv in ip.iter_values(v):
                k, x = ip.iter_values(kv)
                if has_sym(k):
                    raise Unsupported("dict() with symbolic key")
                d[k] = x
    d.update(kw)
    return ip.st.alloc({'k': 'dict', 'd': d})


class SymEnumerate:
    """enumerate() over a sequence of symbolic length (only a loop with an invariant can iterate it)"""

    def __init__(self, seq, start):
        self.seq, self.start = seq, start


@builtin(enumerate)
def _enumerate(ip, args, kw):
    start = args[1] if len(args) > 1 else kw.get('start', 0)
    if ip.meta_items(args[0]) is None and not has_sym(start) and ip.st.ghost.get('unroll_bound') is None:
        sq = ip.seq_view(args[0])
        if sq is not None and not z3.is_int_value(simp(z3.Length(sq.e))):
            return SymEnumerate(args[0], start)      # (previously unsupported: length not decided on this path)
    return tuple((start + i, x) for i, x in enumerate(ip.iter_values(args[0])))


@builtin(zip)
def _zip(ip, args, kw):
    return tuple(zip(*[ip.iter_values(a) for a in args]))


@builtin(reversed)
def _reversed(ip, args, kw):
    v = args[0]
    items = ip.meta_items(v)
    if items is not None:
        return tuple(reversed(items))
    s = ip.seq_view(v)
    if s is not None:
        rev = ip.reg.get_spec('seq_reverse')
        return _M().call_spec(ip, rev, [s], {})
    raise Unsupported("reversed()")


@builtin(sorted)
def _sorted(ip, args, kw):
    items = ip.iter_values(args[0])
    if has_sym(items) or kw.get('key') is not None and not callable(kw.get('key')):
        raise Unsupported("sorted on symbolic values")
    kw2 = dict(kw)
    if 'key' in kw2:
        kw2['key'] = _to_native(ip, kw2['key'])
    return ip.new_list(sorted(items, **kw2))


@builtin(sum)
def _sum(ip, args, kw):
    v = args[0]
    start = args[1] if len(args) > 1 else kw.get('start', 0)
    items = ip.meta_items(v)
    if items is None:
        s = ip.seq_view(v)
        if s is not None and s.kind in (('seq', 'int'), 'bytes'):
            sp = ip.reg.get_spec('seq_sum')
            r = _M().call_spec(ip, sp, [SV(s.e, ('seq', 'int'))], {})
            return ip.binop(ast.Add, start, r)
        raise Unsupported("sum over symbolic collection")
    r = start
    for x in items:
        r = ip.binop(ast.Add, r, x)
    return r


@builtin(any)
def _any(ip, args, kw):
    for x in ip.iter_values(args[0]):
        if ip.decide(x, "any()"):
            return True
    return False


@builtin(all)
def _all(ip, args, kw):
    for x in ip.iter_values(args[0]):
        if not ip.decide(x, "all()"):
            return False
    return True


@builtin(getattr)
def _getattr(ip, args, kw):
    if has_sym(args[1]):
        raise Unsupported("getattr with symbolic name")
    if len(args) == 3:
        try:
            return ip.getattr(args[0], args[1])
        except PyRaise as ex:
            if issubclass(ex.cls, AttributeError):
                return args[2]
            raise
    return ip.getattr(args[0], args[1])


@builtin(hasattr)
def _hasattr(ip, args, kw):
    try:
        ip.getattr(args[0], args[1])
        return True
    except PyRaise as ex:
        if issubclass(ex.cls, AttributeError):
            return False
        raise


@builtin(setattr)
def _setattr(ip, args, kw):
    ip.setattr(args[0], args[1], args[2])


@builtin(callable)
def _callable(ip, args, kw):
    from .interp import Closure, BoundMethod, CellMethod
    v = args[0]
    if isinstance(v, (Closure, BoundMethod, CellMethod)):
        return True
    if isinstance(v, (SV, Loc)):
        return False
    return callable(v)


@builtin(id)
def _id(ip, args, kw):
    v = args[0]
    if isinstance(v, Loc):
        return ('id', v.id)
    raise Unsupported("id()")


@builtin(super)
def _super(ip, args, kw):
    fr = ip.frames[-1]
    if args:
        cls, selfv = args
    else:
        selfv = fr.env[fr.node.args.args[0].arg]
        cls = fr.closure.get('__class__')
        if cls is None:
            raise Unsupported("super() without __class__ cell")
    return SuperProxy(cls, selfv)


class SuperProxy:
    def __init__(self, cls, selfv):
        self.cls, self.selfv = cls, selfv


@builtin(str)
def _str(ip, args, kw):
    if not args:
        return ""
    v = args[0]
    if isinstance(v, SV):
        if v.kind == 'str':
            return v
        raise Unsupported("str() of symbolic " + kind_name(v.kind))
    if isinstance(v, Loc):
        raise Unsupported("str() of heap value")
    return native_call(ip, str, args, kw)


@builtin(repr)
def _repr(ip, args, kw):
    if has_sym(args[0]):
        return "<symbolic>"
    return repr(args[0])


@builtin(print)
def _print(ip, args, kw):
    return None


@builtin(hash)
def _hash(ip, args, kw):
    if has_sym(args[0]):
        raise Unsupported("hash() of symbolic value")
    return hash(args[0])


@builtin(iter)
def _iter(ip, args, kw):
    return tuple(ip.iter_values(args[0]))


# ---------------------------------------------------------------- struct
_FMT = {'B': (1, False), 'H': (2, False), 'L': (4, False), 'I': (4, False), 'Q': (8, False),
        'b': (1, True), 'h': (2, True), 'l': (4, True), 'i': (4, True), 'q': (8, True)}


def _parse_fmt(ip, fmt):
    if not isinstance(fmt, str):
        ip.raise_(TypeError, "Struct() argument 1 must be a str or bytes object")
    order = '@'
    body = fmt
    if fmt and fmt[0] in '<>!=@':
        order, body = fmt[0], fmt[1:]
    if order in '@=':
        order = '<'
    if order == '!':
        order = '>'
    return order, body


def int_bytes(ip, v, k, order):
    """byte string of width k for 0 <= v < 256**k (abstract above 2 bytes, see DESIGN App. B.3)"""
    ok, cv = concrete_of(v)
    if ok:
        return cv.to_bytes(k, 'little' if order == '<' else 'big')
    x = lift(v, 'int').e
    if k == 1:
        return SV(z3.Unit(x), 'bytes')
    if k == 2:
        lo, hi = z3.Unit(x % 256), z3.Unit(x / 256)
        return SV(z3.Concat(lo, hi) if order == '<' else z3.Concat(hi, lo), 'bytes')
    name = ('le%d' if order == '<' else 'be%d') % k
    f = z3.Function(name, z3.IntSort(), IntSeq)
    g = z3.Function(name + '_int', IntSeq, z3.IntSort())
    r = f(x)
    ip.st.assume_def(z3.Length(r) == k)
    ip.st.assume_def(g(r) == x)
    ip.st.ghost.setdefault('int_bytes', []).append((name, k, x, r))
    return SV(r, 'bytes')


def bytes_int(ip, b, k, order):
    """unsigned integer of a k-byte string"""
    ok, cv = concrete_of(b)
    if ok:
        return int.from_bytes(cv, 'little' if order == '<' else 'big')
    s = lift(b, 'bytes').e
    if k == 1:
        e = simp(s[0])
        ip.st.assume_def(z3.And(e >= 0, e < 256))
        return SV(e, 'int')
    if k == 2:
        e0, e1 = simp(s[0]), simp(s[1])
        ip.st.assume_def(z3.And(e0 >= 0, e0 < 256, e1 >= 0, e1 < 256))
        return SV(e0 + 256 * e1 if order == '<' else e1 + 256 * e0, 'int')
    name = ('le%d' if order == '<' else 'be%d') % k
    f = z3.Function(name, z3.IntSort(), IntSeq)
    g = z3.Function(name + '_int', IntSeq, z3.IntSort())
    r = g(s)
    ip.st.assume_def(z3.And(r >= 0, r < 256 ** k))
    ip.st.assume_def(f(r) == s)
    return SV(r, 'int')


@builtin(struct.pack)
def _struct_pack(ip, args, kw):
    if not has_sym(args):
        return native_call(ip, struct.pack, args, kw)
    order, body = _parse_fmt(ip, args[0])
    vals = list(args[1:])
    out = []
    if len(body) != len(vals) or any(c not in _FMT and c != '?' for c in body):
        if any(c.isdigit() or c in 'sxp' for c in body):
            raise Unsupported("struct format " + args[0])
        ip.raise_(struct.error, "pack expected %d items for packing (got %d)" % (len(body), len(vals)))
    for c, v in zip(body, vals):
        if c == '?':
            t = ip.truth(v)
            out.append(SV(z3.Unit(z3.If(t, z3.IntVal(1), z3.IntVal(0))), 'bytes') if not isinstance(t, bool) else (b"\1" if t else b"\0"))
            continue
        k, signed = _FMT[c]
        kv = kind_of(v)
        if kv not in ('int', 'bool'):
            ip.raise_(struct.error, "required argument is not an integer")
        x = lift(v, 'int').e
        lo, hi = (-(256 ** k) // 2, 256 ** k // 2) if signed else (0, 256 ** k)
        if not ip.st.branch(z3.And(x >= lo, x < hi), "struct '%s' in range" % c):
            ip.raise_(struct.error, "argument out of range")
        u = SV(simp(z3.If(x < 0, x + 256 ** k, x)), 'int') if signed else SV(x, 'int')
        out.append(int_bytes(ip, u, k, order))
    r = out[0]
    for o in out[1:]:
        r = ip.binop(ast.Add, r, o)
    return r


@builtin(struct.unpack)
def _struct_unpack(ip, args, kw):
    if not has_sym(args):
        return native_call(ip, struct.unpack, args, kw)
    order, body = _parse_fmt(ip, args[0])
    if any(c not in _FMT and c != '?' for c in body):
        raise Unsupported("struct format " + str(args[0]))
    b = args[1]
    s = ip.seq_view(b)
    if s is None:
        if isinstance(b, bytes):
            s = lift(b)
        else:
            ip.raise_(TypeError, "a bytes-like object is required")
    total = sum(1 if c == '?' else _FMT[c][0] for c in body)
    if not ip.st.branch(z3.Length(s.e) == total, "struct.unpack length == %d" % total):
        ip.raise_(struct.error, "unpack requires a buffer of %d bytes" % total)
    out = []
    off = 0
    for c in body:
        if c == '?':
            e = simp(s.e[off])
            out.append(SV(e != 0, 'bool'))
            off += 1
            continue
        k, signed = _FMT[c]
        part = s if (off == 0 and k == total) else SV(simp(z3.SubSeq(s.e, off, k)), 'bytes')
        u = bytes_int(ip, part, k, order)
        if signed:
            ue = lift(u, 'int').e
            u = SV(simp(z3.If(ue >= 256 ** k // 2, ue - 256 ** k, ue)), 'int')
        out.append(u)
        off += k
    return tuple(out)


@builtin(struct.calcsize)
def _calcsize(ip, args, kw):
    return native_call(ip, struct.calcsize, args, kw)


# ---------------------------------------------------------------- BytesIO
@builtin(io.BytesIO)
def _bytesio(ip, args, kw):
    init = args[0] if args else b""
    if isinstance(init, Loc):
        init = ip.seq_view(init)
    return ip.st.alloc({'k': 'bytesio', 'data': init if isinstance(init, SV) else lift(init), 'pos': 0, 'append': len(args) == 0})


def _bytesio_method(ip, loc, c, name, args, kw):
    st = ip.st
    M = _M()
    if name == 'write':
        b = args[0]
        bv = ip.seq_view(b) if isinstance(b, Loc) else (b if isinstance(b, SV) else None)
        if bv is None:
            if not isinstance(b, (bytes, bytearray)):
                ip.raise_(TypeError, "a bytes-like object is required, not '%s'" % type(b).__name__)
            bv = lift(bytes(b))
        if bv.kind != 'bytes':
            ip.raise_(TypeError, "a bytes-like object is required")
        d = c['data']
        n = simp(z3.Length(bv.e))
        if c.get('append'):
            c['data'] = SV(simp(z3.Concat(d.e, bv.e)), 'bytes')
            c['pos'] = SV(simp(z3.Length(c['data'].e)), 'int')
            return SV(n, 'int')
        pos = lift(c['pos'], 'int').e
        dl = z3.Length(d.e)
        # overwrite semantics (no zero fill: pos <= len is an invariant of the model)
        c['data'] = SV(simp(z3.Concat(z3.SubSeq(d.e, 0, pos), bv.e,
                                      z3.SubSeq(d.e, pos + n, z3.If(dl > pos + n, dl - pos - n, 0)))), 'bytes')
        c['pos'] = SV(simp(pos + n), 'int')
        return SV(n, 'int')
    if name == 'read':
        d = c['data']
        pos = lift(c['pos'], 'int').e
        avail = z3.Length(d.e) - pos
        if not args or args[0] is None:
            take = avail
        else:
            nn = lift(args[0], 'int').e
            if not st.merge and not z3.is_int_value(simp(nn)):
                if st.branch(nn >= (1 << 63), "read size does not fit a machine word"):
                    ip.raise_(OverflowError, "cannot fit 'int' into an index-sized integer")
            take = z3.If(nn < 0, avail, z3.If(nn <= avail, nn, avail))
        take = simp(take)
        r = SV(simp(z3.SubSeq(d.e, pos, take)), 'bytes')
        c['pos'] = SV(simp(pos + take), 'int')
        ok, cv = concrete_of(r)
        return cv if ok else r
    if name == 'getvalue':
        ok, cv = concrete_of(c['data'])
        return cv if ok else c['data']
    if name == 'tell':
        return c['pos']
    if name == 'seek':
        if c.get('append'):
            raise Unsupported("seek on write-only stream model")
        whence = args[1] if len(args) > 1 else 0
        if whence != 0:
            raise Unsupported("seek whence")
        p = lift(args[0], 'int').e
        if st.feasible(z3.Or(p < 0, p > z3.Length(c['data'].e))):
            raise Unsupported("seek outside the data")
        c['pos'] = SV(simp(p), 'int')
        return c['pos']
    if name == 'close':
        return None
    raise Unsupported("BytesIO." + name)


# ---------------------------------------------------------------- hashing (uninterpreted)
_HASH_LEN = {'sha256': 32, 'sha1': 20, 'sha512': 64, 'ripemd160': 20, 'md5': 16}


def hash_fn(ip, alg, data):
    ok, cv = concrete_of(data)
    if ok and not ip.st.ghost.get('abstract_hash'):
        return hashlib.new(alg, cv).digest()
    f = z3.Function('H_' + alg, IntSeq, IntSeq)
    r = f(lift(data, 'bytes').e)
    ip.st.assume_def(z3.Length(r) == _HASH_LEN[alg])
    return SV(r, 'bytes')


def _mk_hasher(ip, alg, args):
    data = args[0] if args else b""
    if isinstance(data, Loc):
        data = ip.seq_view(data)
    return ip.st.alloc({'k': 'hasher', 'alg': alg, 'data': data})


@builtin(hashlib.sha256)
def _sha256(ip, args, kw):
    return _mk_hasher(ip, 'sha256', args)


@builtin(hashlib.sha1)
def _sha1(ip, args, kw):
    return _mk_hasher(ip, 'sha1', args)


@builtin(hashlib.sha512)
def _sha512(ip, args, kw):
    return _mk_hasher(ip, 'sha512', args)


@builtin(hashlib.new)
def _hashlib_new(ip, args, kw):
    alg = args[0]
    if alg not in _HASH_LEN:
        raise Unsupported("hashlib.new(%r)" % (alg,))
    return _mk_hasher(ip, alg, args[1:])


def hmac_fn(ip, alg, key, msg):
    okk, ck = concrete_of(key)
    okm, cm = concrete_of(msg)
    if okk and okm and not ip.st.ghost.get('abstract_hash'):
        return hmac.new(ck, cm, getattr(hashlib, alg)).digest()
    f = z3.Function('HMAC_' + alg, IntSeq, IntSeq, IntSeq)
    r = f(lift(key, 'bytes').e, lift(msg, 'bytes').e)
    ip.st.assume_def(z3.Length(r) == _HASH_LEN[alg])
    return SV(r, 'bytes')


def _alg_of(ip, d):
    for name in _HASH_LEN:
        if hasattr(hashlib, name) and d is getattr(hashlib, name):
            return name
    if isinstance(d, str) and d in _HASH_LEN:
        return d
    raise Unsupported("digestmod %r" % (d,))


@builtin(hmac.new, hmac.HMAC)
def _hmac_new(ip, args, kw):
    key = args[0] if args else kw.get('key')
    msg = args[1] if len(args) > 1 else kw.get('msg', b"")
    dm = args[2] if len(args) > 2 else kw.get('digestmod')
    if msg is None:
        msg = b""
    if isinstance(key, Loc):
        key = ip.seq_view(key)
    if isinstance(msg, Loc):
        msg = ip.seq_view(msg)
    return ip.st.alloc({'k': 'hmac', 'alg': _alg_of(ip, dm), 'key': key, 'data': msg})


def _hasher_method(ip, loc, c, name, args, kw):
    if name == 'update':
        b = args[0]
        if isinstance(b, Loc):
            b = ip.seq_view(b)
        c['data'] = ip.binop(ast.Add, c['data'], b)
        return None
    if name == 'digest':
        if c['k'] == 'hmac':
            return hmac_fn(ip, c['alg'], c['key'], c['data'])
        return hash_fn(ip, c['alg'], c['data'])
    if name == 'hexdigest':
        d = _hasher_method(ip, loc, c, 'digest', [], {})
        if has_sym(d):
            raise Unsupported("hexdigest of symbolic data")
        return d.hex()
    if name == 'copy':
        return ip.st.alloc(dict(c))
    raise Unsupported("hash object method " + name)


# ---------------------------------------------------------------- binascii / hex (idioms)
@builtin(binascii.hexlify)
def _hexlify(ip, args, kw):
    v = args[0]
    if isinstance(v, Loc):
        v = ip.seq_view(v)
    if not has_sym(v):
        return native_call(ip, binascii.hexlify, [v], {})
    return _M().HexOfBytes(lift(v, 'bytes'))


@builtin(binascii.unhexlify)
def _unhexlify(ip, args, kw):
    v = args[0]
    M = _M()
    if isinstance(v, M.HexOfBytes):
        return v.b
    if isinstance(v, M.HexText):
        # idiom: unhexlify of the (padded) hex digits of r is the big-endian byte string of r, provided the digit count is even
        st = ip.st
        hl = M.hexlen(ip, v.v)
        total = hl + v.pad
        if not st.branch(total % 2 == 0, "even number of hex digits"):
            ip.raise_(binascii.Error, "Odd-length string")
        bm = ip.reg.get_spec('be_min_bytes')
        body = lift(M.call_spec(ip, bm, [v.v], {}), 'bytes')
        st.assume_def(z3.Length(body.e) * 2 == hl + hl % 2)          # hex digits <-> bytes of the minimal encoding
        extra = simp(total / 2 - z3.Length(body.e))
        if z3.is_int_value(extra) and extra.as_long() == 0:
            return body
        if not st.feasible(extra != 0):
            return body
        rep = ip.reg.get_spec('repeat_byte')
        return SV(simp(z3.Concat(lift(M.call_spec(ip, rep, [0, SV(extra, 'int')], {}), 'bytes').e, body.e)), 'bytes')
    if not has_sym(v):
        return native_call(ip, binascii.unhexlify, [v], {})
    raise Unsupported("unhexlify of symbolic text")


# ---------------------------------------------------------------- cell / value methods
def cell_method(ip, recv, name, args, kw):
    st = ip.st
    M = _M()
    if isinstance(recv, SV):
        return _sv_method(ip, recv, name, args, kw)
    c = st.cell(recv)
    k = c['k']
    if k == 'bytesio':
        return _bytesio_method(ip, recv, c, name, args, kw)
    if k in ('hasher', 'hmac'):
        return _hasher_method(ip, recv, c, name, args, kw)
    if k == 'list':
        return _list_method(ip, recv, c, name, args, kw)
    if k == 'bytearray':
        d = c['data'] if isinstance(c['data'], SV) else lift(c['data'])
        if name == 'append':
            x = lift(args[0], 'int').e
            if not st.branch(z3.And(x >= 0, x < 256), "bytearray.append in range(256)"):
                ip.raise_(ValueError, "byte must be in range(0, 256)")
            c['data'] = SV(simp(z3.Concat(d.e, z3.Unit(x))), 'bytes')
            return None
        if name == 'extend':
            b = args[0]
            bv = ip.seq_view(b) if isinstance(b, (Loc, SV)) else lift(_bytes(ip, [b], {}))
            if isinstance(b, Loc) and st.cell(b)['k'] == 'list':
                bv = lift(_bytes(ip, [b], {}), 'bytes')
            c['data'] = SV(simp(z3.Concat(d.e, bv.e)), 'bytes')
            return None
        if name == 'reverse':
            rev = ip.reg.get_spec('seq_reverse')
            c['data'] = lift(M.call_spec(ip, rev, [d], {}), 'bytes')
            return None
        if name == 'copy':
            return st.alloc({'k': 'bytearray', 'data': d})
        if name == 'pop' and not args:
            n = z3.Length(d.e)
            if not st.branch(n > 0, "bytearray non-empty"):
                ip.raise_(IndexError, "pop from empty bytearray")
            last = M.elem_value(ip, d, simp(n - 1))
            c['data'] = SV(simp(z3.SubSeq(d.e, 0, n - 1)), 'bytes')
            return last
        return _sv_method(ip, d, name, args, kw)
    if k == 'dict':
        return _dict_method(ip, recv, c, name, args, kw)
    if k == 'set':
        return _set_method(ip, recv, c, name, args, kw)
    raise Unsupported("method %s on cell %s" % (name, k))


def _list_method(ip, recv, c, name, args, kw):
    st = ip.st
    M = _M()
    if name == '__getitem__':
        a = args[0]
        if isinstance(a, slice):
            return M.slice_(ip, recv, a.start, a.stop, a.step)
        return M.index(ip, recv, a)
    if name == '__len__':
        return M.seq_len(ip, recv)
    if 'items' in c:
        items = c['items']
        if name == 'append':
            c['items'] = items + [args[0]]
            return None
        if name == 'extend':
            c['items'] = items + list(ip.iter_values(args[0]))
            return None
        if name == 'insert':
            ok, iv = concrete_of(args[0])
            if not ok:
                raise Unsupported("insert at symbolic index into meta list")
            l = list(items)
            l.insert(iv, args[1])
            c['items'] = l
            return None
        if name == 'pop':
            if not items:
                ip.raise_(IndexError, "pop from empty list")
            iv = -1
            if args:
                ok, iv = concrete_of(args[0])
                if not ok:
                    raise Unsupported("pop at symbolic index from meta list")
            if not -len(items) <= iv < len(items):
                ip.raise_(IndexError, "pop index out of range")
            l = list(items)
            r = l.pop(iv)
            c['items'] = l
            return r
        if name == 'reverse':
            c['items'] = list(reversed(items))
            return None
        if name == 'copy':
            return ip.new_list(items)
        if name == 'index':
            for j, y in enumerate(items):
                if ip.decide(M.equal(ip, args[0], y), "list.index match %d" % j):
                    return j
            ip.raise_(ValueError, "not in list")
        if name == 'count':
            n = 0
            for y in items:
                n = ip.binop(ast.Add, n, lift(M.equal(ip, args[0], y), 'int') if has_sym(M.equal(ip, args[0], y)) else int(M.equal(ip, args[0], y)))
            return n
        if name == 'remove':
            for j, y in enumerate(items):
                if ip.decide(M.equal(ip, args[0], y), "list.remove match %d" % j):
                    c['items'] = items[:j] + items[j + 1:]
                    return None
            ip.raise_(ValueError, "list.remove(x): x not in list")
        if name == 'sort':
            if has_sym(items):
                raise Unsupported("sort of symbolic items")
            kw2 = {kk: _to_native(ip, v) for kk, v in kw.items()}
            c['items'] = sorted(items, **kw2)
            return None
        if name == 'clear':
            c['items'] = []
            return None
        raise Unsupported("list." + name)
    s = c['seq']
    ek = s.kind[1]
    n = z3.Length(s.e)
    if name in ('append', 'extend', 'insert', '__setitem__', 'sort', 'reverse'):
        c.pop('byte_elems', None)
    if name == 'append':
        c['seq'] = SV(simp(z3.Concat(s.e, z3.Unit(lift(args[0], ek).e))), s.kind)
        return None
    if name == 'extend':
        o = args[0]
        ov = ip.seq_view(o) if isinstance(o, (Loc, SV)) else None
        if ov is None:
            ov = lift(tuple(ip.iter_values(o)), s.kind)
        c['seq'] = SV(simp(z3.Concat(s.e, ov.e)), s.kind)
        return None
    if name == 'pop':
        if not args:
            pl = M.seq_peel_last(s.e)
            if pl is not None:      # the list syntactically ends in a known element: no solver work needed
                c['seq'] = SV(simp(pl[0]), s.kind)
                r = SV(simp(pl[1][0]), ek)
                M.typing_facts(ip, r)
                ok_, cv_ = concrete_of(r)
                return cv_ if ok_ else r
        if not st.branch(n > 0, "list non-empty"):
            ip.raise_(IndexError, "pop from empty list")
        if args:
            iv = lift(args[0], 'int').e
            idx = simp(z3.If(iv < 0, iv + n, iv))
            if not st.branch(z3.And(idx >= 0, idx < n), "pop index in range"):
                ip.raise_(IndexError, "pop index out of range")
        else:
            idx = simp(n - 1)
            r = M.elem_value(ip, s, idx)
            c['seq'] = SV(simp(z3.SubSeq(s.e, 0, idx)), s.kind)      # pop(): the list without its last element
            return r
        r = M.elem_value(ip, s, idx)
        c['seq'] = SV(simp(z3.Concat(z3.SubSeq(s.e, 0, idx), z3.SubSeq(s.e, idx + 1, n - idx - 1))), s.kind)
        return r
    if name == 'insert':
        iv = lift(args[0], 'int').e
        idx = z3.If(iv < 0, iv + n, iv)
        idx = simp(z3.If(idx < 0, 0, z3.If(idx > n, n, idx)))
        c['seq'] = SV(simp(z3.Concat(z3.SubSeq(s.e, 0, idx), z3.Unit(lift(args[1], ek).e), z3.SubSeq(s.e, idx, n - idx))), s.kind)
        return None
    if name == 'copy':
        return st.alloc({'k': 'list', 'seq': s})
    if name == 'reverse':
        rev = ip.reg.get_spec('seq_reverse_' + kind_name(ek), optional=True)
        if rev is None:
            raise Unsupported("reverse of symbolic list")
        c['seq'] = M.call_spec(ip, rev, [s], {})
        return None
    raise Unsupported("symbolic list." + name)


def _dict_method(ip, recv, c, name, args, kw):
    M = _M()
    d = c['d']
    if name == 'get':
        default = args[1] if len(args) > 1 else None
        if has_sym(args[0]):
            return M._dict_sym_get(ip, c, args[0], default, False)
        return d.get(args[0], default)
    if name == 'items':
        return tuple(d.items())
    if name == 'keys':
        return tuple(d.keys())
    if name == 'values':
        return tuple(d.values())
    if name == 'copy':
        return ip.st.alloc({'k': 'dict', 'd': dict(d)})
    if name == 'setdefault':
        if has_sym(args[0]):
            raise Unsupported("setdefault symbolic key")
        if args[0] not in d:
            c['d'] = dict(d)
            c['d'][args[0]] = args[1] if len(args) > 1 else None
        return c['d'][args[0]]
    if name == 'pop':
        if has_sym(args[0]):
            raise Unsupported("dict.pop symbolic key")
        if args[0] in d:
            r = d[args[0]]
            c['d'] = {k: v for k, v in d.items() if k != args[0]}
            return r
        if len(args) > 1:
            return args[1]
        ip.raise_(KeyError, args[0])
    if name == 'update':
        nd = dict(d)
        for a in args:
            if isinstance(a, Loc) and ip.st.cell(a)['k'] == 'dict':
                nd.update(ip.st.cell(a)['d'])
            elif isinstance(a, dict):
                nd.update(a)
            else:
                for kv in ip.iter_values(a):
                    k, x = ip.iter_values(kv)
                    nd[k] = x
        nd.update(kw)
        c['d'] = nd
        return None
    raise Unsupported("dict." + name)


def _set_method(ip, recv, c, name, args, kw):
    M = _M()
    if 'elems' in c:
        if name == 'add':
            e_ = c['elems']
            c['elems'] = SV(simp(z3.Concat(e_.e, z3.Unit(lift(args[0], e_.kind[1]).e))), e_.kind)
            return None
        raise Unsupported("set.%s on an abstract set" % name)
    if name == 'add':
        r = M.contains(ip, tuple(c['items']), args[0]) if c['items'] else False
        if isinstance(r, bool):
            if not r:
                c['items'] = c['items'] + [args[0]]
        elif not ip.st.branch(r.e, "set.add: already present"):
            c['items'] = c['items'] + [args[0]]
        return None
    if name == 'copy':
        return ip.st.alloc({'k': 'set', 'items': list(c['items'])})
    if name in ('discard', 'remove'):
        for j, y in enumerate(c['items']):
            if ip.decide(M.equal(ip, args[0], y), "set member %d" % j):
                c['items'] = c['items'][:j] + c['items'][j + 1:]
                return None
        if name == 'remove':
            ip.raise_(KeyError, "set.remove")
        return None
    if name == 'update':
        for a in args:
            for x in ip.iter_values(a):
                _set_method(ip, recv, c, 'add', [x], {})
        return None
    raise Unsupported("set." + name)


def _sv_method(ip, s, name, args, kw):
    """methods of symbolic bytes / str values"""
    M = _M()
    st = ip.st
    if name == 'count' and isinstance(s.kind, tuple) and s.kind[0] == 'seq':
        # sequence.count(x) on a sequence of records: objects without __eq__ compare by identity, the engine's records by
        # value, so the real count is at most the number of value-equal elements (spec seq_count_<Record>) -- an
        # over-approximation that keeps every real behaviour
        sp_ = ip.reg.get_spec('seq_count_' + kind_name(s.kind[1]), optional=True)
        if sp_ is None or ip.st.merge:
            raise Unsupported("count on symbolic sequence")
        from .modular import call_spec
        upper = call_spec(ip, sp_, [s, SV(simp(z3.Length(s.e)), 'int'), args[0]], {})
        c_ = fresh('count', 'int')
        ip.st.assume(z3.And(c_.e >= 0, c_.e <= lift(upper, 'int').e))
        return c_
    if s.kind not in ('bytes', 'str'):
        raise Unsupported("method %s on %s" % (name, kind_name(s.kind)))
    if name in ('startswith', 'endswith'):
        p = args[0]
        if isinstance(p, tuple):
            cs = [_sv_method(ip, s, name, [x], {}) for x in p]
            return SV(simp(z3.Or(*[ip.zbool(x) for x in cs])), 'bool')
        pv = lift(p, s.kind) if kind_of(p) == s.kind else None
        if pv is None:
            ip.raise_(TypeError, "%s first arg must be %s" % (name, s.kind))
        return SV(simp(z3.PrefixOf(pv.e, s.e) if name == 'startswith' else z3.SuffixOf(pv.e, s.e)), 'bool')
    if name == 'hex' and s.kind == 'bytes':
        sp = ip.reg.get_spec('hexlify_s')
        return M.call_spec(ip, sp, [s], {})
    if name == 'decode' and s.kind == 'bytes':
        e0_ = simp(s.e)
        if z3.is_app(e0_) and e0_.decl().name() == 'b64enc':
            return SV(e0_, 'str')           # base64 text is ASCII
        sp = ip.reg.get_spec('ascii_decode', optional=True)
        if sp is None:
            raise Unsupported("bytes.decode")
        return sp.special(ip, s, *args)
    if name == 'encode' and s.kind == 'str':
        sp = ip.reg.get_spec('utf8_encode', optional=True)
        if sp is None:
            raise Unsupported("str.encode")
        return sp.special(ip, s, *args)
    if name == 'find':
        if len(args) != 1:
            raise Unsupported("find with bounds")
        return SV(simp(z3.IndexOf(s.e, lift(args[0], s.kind).e, 0)), 'int')
    if name == 'count':
        raise Unsupported("count on symbolic sequence")
    if name == 'join' and len(args) == 1:
        items = ip.iter_values(args[0])
        out = None
        for j, it_ in enumerate(items):
            iv_ = ip.seq_view(it_) if isinstance(it_, Loc) else it_
            if kind_of(iv_) != s.kind:
                ip.raise_(TypeError, "sequence item %d: expected a %s-like object" % (j, s.kind))
            piece = lift(iv_).e
            out = piece if out is None else z3.Concat(out, s.e, piece)
        if out is None:
            return b"" if s.kind == 'bytes' else ""
        r_ = SV(simp(out), s.kind)
        ok_, cv_ = concrete_of(r_)
        return cv_ if ok_ else r_
    if name in ('strip', 'rstrip') and not args:
        pl = _M().seq_peel_last(s.e)
        if pl is not None and z3.is_int_value(pl[1][0]) and pl[1][0].as_long() == 10:
            a0 = simp(pl[0])
            if z3.is_app(a0) and a0.decl().name() == 'b64enc':
                return SV(a0, s.kind)      # base64 text carries no white space: strip() removes exactly the line break
    if name == 'decode' and s.kind == 'bytes':
        e_ = simp(s.e)
        if z3.is_app(e_) and e_.decl().name() == 'b64enc':
            return SV(e_, 'str')           # base64 text is ASCII
    if name in ('lower', 'upper', 'strip', 'split', 'join', 'replace', 'rstrip', 'lstrip', 'format', 'isdigit', 'rfind', 'zfill', 'ljust', 'rjust'):
        sp = ip.reg.get_spec('str_' + name, optional=True)
        if sp is None:
            raise Unsupported("%s.%s on symbolic value" % (s.kind, name))
        return sp.special(ip, s, *args)
    raise Unsupported("%s.%s" % (s.kind, name))


# ---------------------------------------------------------------- contract-language helpers (pyvc.api)
from . import api as _api  # noqa: E402


@builtin(_api.implies)
def _implies(ip, args, kw):
    a, b = args
    ta, tb = ip.truth(a), ip.truth(b)
    if isinstance(ta, bool):
        return True if not ta else (tb if isinstance(tb, bool) else SV(simp(tb), 'bool'))
    if isinstance(tb, bool):
        return True if tb else SV(simp(z3.Not(ta)), 'bool')
    return SV(simp(z3.Implies(ta, tb)), 'bool')


@builtin(_api.fdata)
def _fdata(ip, args, kw):
    c = ip.st.cell(args[0])
    ok, cv = concrete_of(c['data'])
    return cv if ok else c['data']


@builtin(_api.fpos)
def _fpos(ip, args, kw):
    return ip.st.cell(args[0])['pos']


@builtin(_api.listval)
def _listval(ip, args, kw):
    v = args[0]
    if isinstance(v, Loc):
        c = ip.st.cell(v)
        if 'seq' in c:
            return c['seq']
        return tuple(c['items'])
    return v


import typing as _typing


@builtin(_typing.cast)
def _cast(ip, args, kw):
    return args[1]


@builtin(_api.setseq)
def _setseq(ip, args, kw):
    """the members of a set as a sequence (insertion order); kind = kind of that sequence"""
    c = ip.st.cell(args[0])
    kind = args[1]
    if 'elems' in c:
        return c['elems']
    return lift(tuple(c['items']), kind)


@builtin(_api.unfold)
def _unfold(ip, args, kw):
    from .modular import unfold_hint
    return unfold_hint(ip, args, kw)


def int_to_bytes_model(ip, args, kw):
    """int.to_bytes(length, byteorder) for non-negative symbolic ints"""
    v, k = args[0], args[1]
    order = args[2] if len(args) > 2 else kw.get('byteorder', 'big')
    ok, kv = concrete_of(k)
    if not ok:
        raise Unsupported("to_bytes with symbolic length")
    x = lift(v, 'int').e
    if not ip.st.merge:
        if not ip.st.branch(z3.And(x >= 0, x < 256 ** kv), "to_bytes in range"):
            ip.raise_(OverflowError, "int too big to convert")
    return int_bytes(ip, v, kv, '<' if order == 'little' else '>')


def int_from_bytes_model(ip, args, kw):
    b = args[0]
    order = args[1] if len(args) > 1 else kw.get('byteorder', 'big')
    s = ip.seq_view(b) if isinstance(b, (Loc, SV)) else lift(b)
    n = simp(z3.Length(s.e))
    if not z3.is_int_value(n):
        uv = ip.st.unique_value(n, force=True) if not ip.st.merge else None
        if uv is None and not ip.st.merge:
            for cand in (32, 64, 20, 4, 8, 1, 2, 16, 33, 65):     # usual fixed widths: is the length implied?
                if not ip.st.feasible(n != cand):
                    uv = cand
                    break
        if uv is None:
            if ip.st.merge:
                raise Unsupported("int.from_bytes of a string of symbolic length")
            # undetermined length: the usual 32-byte case apart, the general big-endian value (spec be_value)
            if ip.st.branch(n == 32, "from_bytes of 32 bytes"):
                uv = 32
                bv_ = ip.reg.get_spec('be_value', optional=True)
                if order == 'big' and bv_ is not None:
                    # the abstract 32-byte big-endian reading IS the positional value: say so, because the other lengths
                    # of this very call are expressed by be_value and contracts speak about the value in those terms
                    r32 = bytes_int(ip, s, 32, '>')
                    ip.st.assume_def(lift(r32, 'int').e == lift(_M().call_spec(ip, bv_, [s], {}), 'int').e)
                    return r32
            else:
                if order != 'big':
                    raise Unsupported("int.from_bytes (little-endian) of a string of symbolic length")
                bv_ = ip.reg.get_spec('be_value', optional=True)
                if bv_ is None:
                    raise Unsupported("int.from_bytes of a string of symbolic length")
                return _M().call_spec(ip, bv_, [s], {})
        n = z3.IntVal(uv)
    return bytes_int(ip, s, n.as_long(), '<' if order == 'little' else '>') if n.as_long() > 0 else 0


_B[int.from_bytes] = int_from_bytes_model


# ---------------------------------------------------------------- base64 (string idiom: uninterpreted codec with its inverse law)
import binascii as _binascii


def _b64_fns():
    return (z3.Function('b64enc', IntSeq, IntSeq), z3.Function('b64dec', IntSeq, IntSeq), z3.Function('b64_ok', IntSeq, z3.BoolSort()))


def b64_encode_sv(ip, data):
    """abstract base64 text (ASCII, no line break) of the bytes `data`, with the decode-inverse law"""
    enc, dec, ok = _b64_fns()
    d = lift(data, 'bytes').e
    t = enc(d)
    ip.st.assume_def(z3.And(dec(t) == d, ok(t)))
    return t


@builtin(_binascii.b2a_base64)
def _b2a_base64(ip, args, kw):
    v = args[0]
    if isinstance(v, Loc):
        v = ip.seq_view(v)
    if not has_sym(v):
        return native_call(ip, _binascii.b2a_base64, [v], kw)
    if kw.get('newline', True) is False:
        return SV(b64_encode_sv(ip, v), 'bytes')
    return SV(z3.Concat(b64_encode_sv(ip, v), z3.Unit(z3.IntVal(10))), 'bytes')


@builtin(_binascii.a2b_base64)
def _a2b_base64(ip, args, kw):
    v = args[0]
    if not has_sym(v):
        return native_call(ip, _binascii.a2b_base64, [v], kw)
    enc, dec, ok = _b64_fns()
    t = lift(v).e
    if not ip.st.branch(ok(t), "text is valid base64"):
        ip.raise_(_binascii.Error, "Incorrect padding / non-base64 text")
    r = SV(dec(t), 'bytes')
    _M().typing_facts(ip, r)
    return r
