"""vf: run the checks of one property, write evidence, report violations."""
import argparse
import glob
import importlib
import json
import multiprocessing as mp
import os
import sys
import time
import traceback

ROOT = os.path.dirname(os.path.dirname(os.path.abspath(__file__)))
sys.path.insert(0, ROOT)
sys.path.insert(0, os.environ.get('PYVC_REPO', '/repo'))
sys.setrecursionlimit(10000)
sys.dont_write_bytecode = True


def load_all():
    from pyvc import api
    mods = sorted(glob.glob(os.path.join(ROOT, 'contracts', 'c*.py')))
    for m in mods:
        importlib.import_module('contracts.' + os.path.basename(m)[:-3])
    return api.REG


def _work(job):
    """runs in a worker process"""
    kind, name, opts = job
    try:
        from pyvc import api, verify
        reg = load_all()
        if kind == 'unit':
            c = reg.contracts[name]
            r = verify.verify_unit(c, do_cross=True, cross_n=opts.get('cross_n', 30), seed=opts.get('seed', 0), both=opts.get('both', False))
            return kind, name, r.summary()
        if kind == 'lemma':
            r = verify.verify_lemma(reg.lemmas[name], both=opts.get('both', False))
            return kind, name, r.summary()
        if kind == 'canary':
            cname, idx = name
            c = reg.contracts[cname]
            f = verify.target_function(c)
            spec_ = c.canaries[idx]
            target = c.target
            tf = f
            if len(spec_) == 3:         # (other function target, old, new): mutate a callee that is inlined
                target = spec_[0]
                tf = verify.resolve(target)
                old, new = spec_[1], spec_[2]
            else:
                old, new = spec_
            mut = {target: verify.mutate_function(tf, old, new)}
            r = verify.verify_unit(c, mutate=mut, do_cross=False, both=False)
            s = r.summary()
            killed = len(s['failed']) > 0
            return kind, name, {'unit': cname, 'mutation': "%s: %r -> %r" % (target, old, new), 'killed': killed,
                                'failed_clauses': sorted({o['clause'] for o in s['failed']}),
                                'witness': (s['failed'][0].get('replay') or {}).get('inputs') if killed else None,
                                'error': s['error'], 'unsupported': s['unsupported'][:2], 'secs': s['secs']}
        if kind == 'bounded':
            from pyvc import bounded
            fn = bounded.REGISTRY[name]
            t0 = time.time()
            r = fn(opts)
            r['secs'] = round(time.time() - t0, 2)
            return kind, name, r
    except Exception as ex:
        return kind, name, {'error': "%s: %s\n%s" % (type(ex).__name__, ex, traceback.format_exc()[-2000:]), 'crash': True}


def load_known():
    p = os.path.join(ROOT, 'known_findings.json')
    if not os.path.exists(p):
        return []
    return json.load(open(p)).get('findings', [])


def match_known(known, pid, unit, clause, trace, witness=None):
    for k in known:
        if k.get('status') != 'known' or k.get('property') != pid:
            continue
        if k.get('unit') != unit:
            continue
        if k.get('clause') and k['clause'] not in clause:
            continue
        pats = k.get('path_contains', [])
        joined = " | ".join(trace or [])
        if all(p in joined for p in pats):
            return k
    return None


def main(argv=None):
    ap = argparse.ArgumentParser(prog='vf')
    sub = ap.add_subparsers(dest='cmd')
    c = sub.add_parser('check')
    c.add_argument('pid')
    c.add_argument('--tier', default=os.environ.get('VERIF_TIER', 'quick'))
    c.add_argument('--jobs', type=int, default=int(os.environ.get('VERIF_JOBS', '12')))
    c.add_argument('--only', default=None)
    r = sub.add_parser('replay')
    r.add_argument('path')
    l = sub.add_parser('list')
    args = ap.parse_args(argv)
    if args.cmd == 'check':
        return check(args)
    if args.cmd == 'replay':
        from pyvc import replay
        return replay.main(args.path)
    if args.cmd == 'list':
        reg = load_all()
        for k, c_ in sorted(reg.contracts.items()):
            print(",".join(c_.props), k, "(assumed)" if not c_.verify else "")
        for k, l_ in sorted(reg.lemmas.items()):
            print(",".join(l_.props), "lemma:" + k)
        return 0
    ap.print_help()
    return 2


def check(args):
    from pyvc import report
    t0 = time.time()
    pid = args.pid
    tier = args.tier if args.tier in ('quick', 'thorough') else 'quick'
    seed = int(os.environ.get('VERIF_SEED', '0') or 0)
    try:
        reg = load_all()
        from pyvc import bounded
    except Exception:
        traceback.print_exc()
        print("CHECKER-CRASH while loading contracts")
        return 3
    both = tier == 'thorough'
    opts = {'seed': seed, 'both': both, 'tier': tier, 'cross_n': 30 if tier == 'quick' else 150}
    jobs = []
    units = [k for k, c_ in reg.contracts.items() if pid in c_.props and c_.verify]
    assumed = [k for k, c_ in reg.contracts.items() if pid in c_.props and not c_.verify]
    lemmas = [k for k, l_ in reg.lemmas.items() if pid in l_.props]
    # lemmas used transitively are checked under every property that may use them: keep it simple, check all tagged '*'
    lemmas += [k for k, l_ in reg.lemmas.items() if '*' in l_.props and k not in lemmas]
    if args.only:
        units = [u for u in units if args.only in u]
    for u in units:
        jobs.append(('unit', u, opts))
    for l_ in lemmas:
        jobs.append(('lemma', l_, opts))
    for u in units:
        cs = reg.contracts[u].canaries
        n = len(cs) if tier == 'thorough' else min(1, len(cs))
        for i in range(n):
            jobs.append(('canary', (u, (i + seed) % len(cs) if tier == 'quick' else i), opts))
    for name, meta in bounded.META.items():
        if pid in meta['props']:
            jobs.append(('bounded', name, opts))
    if not jobs:
        print("no checks registered for", pid)
        return 3
    results = []
    with mp.Pool(min(args.jobs, max(1, len(jobs)))) as pool:
        for res in pool.imap_unordered(_work, jobs, chunksize=1):
            results.append(res)
    return report.finish(pid, tier, seed, results, reg, assumed, time.time() - t0, load_known(), match_known)


if __name__ == '__main__':
    sys.exit(main())
