"""vf: run the checks of one property, write evidence, report violations."""
import argparse
import glob
import importlib
import json
import multiprocessing as mp
import os
import sys
import time
import traceback

ROOT = os.path.dirname(os.path.dirname(os.path.abspath(__file__)))
sys.path.insert(0, ROOT)
sys.path.insert(0, os.environ.get('PYVC_REPO', '/repo'))
sys.setrecursionlimit(10000)
sys.dont_write_bytecode = True
from pyvc.values import Unsupported as Unsupported_  # noqa: E402


def load_all():
    from pyvc import api
    mods = sorted(glob.glob(os.path.join(ROOT, 'contracts', 'c*.py')))
    for m in mods:
        name = os.path.basename(m)[:-3]
        try:
            importlib.import_module('contracts.' + name)
        except Exception:
            LOAD_ERRORS[name] = traceback.format_exc()[-1500:]
    return api.REG


LOAD_ERRORS = {}


def _work(job):
    """runs in a worker process"""
    kind, name, opts = job
    try:
        from pyvc import api, verify
        reg = load_all()
        if kind == 'unit':
            cases = None
            uname = name
            if isinstance(name, tuple):
                uname, cases = name[0], list(name[1])
            c = reg.contracts[uname]
            r = verify.verify_unit(c, do_cross=(cases is None or 0 in cases), cross_n=opts.get('cross_n', 30), seed=opts.get('seed', 0), both=opts.get('both', False), cases=cases)
            s = r.summary()
            if (cases is None or 0 in cases) and not s.get('error'):
                try:
                    s['native_sampling'] = verify.native_sampling(c, verify.target_function(c), opts.get('native_n', 150), opts.get('seed', 0))
                except Exception as ex:
                    s['native_sampling'] = {'evaluations': 0, 'distinct': 0, 'violations': [], 'error': repr(ex)}
            if cases is not None:
                s['unit'] = "%s[cases %d-%d]" % (uname, cases[0], cases[-1])
            return kind, (uname if cases is None else s['unit']), s
        if kind == 'lemma':
            r = verify.verify_lemma(reg.lemmas[name], both=opts.get('both', False))
            return kind, name, r.summary()
        if kind == 'canary':
            cname, idx = name
            c = reg.contracts[cname]
            f = verify.target_function(c)
            spec_ = c.canaries[idx]
            target = c.target
            tf = f
            if len(spec_) == 3:         # (other function target or getter, old, new): mutate a callee that is inlined
                if callable(spec_[0]):
                    tf = spec_[0]()
                    from pyvc.interp import qualname_of
                    target = qualname_of(tf)
                else:
                    target = spec_[0]
                    tf = verify.resolve(target)
                old, new = spec_[1], spec_[2]
            else:
                old, new = spec_
            try:
                mut = {target: verify.mutate_function(tf, old, new)}
            except (ValueError, Unsupported_) as ex_:
                # the text the canary replaces is gone: the source changed; nothing to learn from this mutant
                return kind, name, {'unit': cname, 'mutation': "%s: %r -> %r" % (target, old, new), 'killed': False, 'flagged': True,
                                    'failed_clauses': [], 'witness': None, 'error': 'not applicable: %s' % ex_, 'unsupported': [], 'secs': 0.0}
            r = verify.verify_unit(c, mutate=mut, do_cross=False, both=False)
            s = r.summary()
            killed = len(s['failed']) > 0
            flagged = killed or len(s['undecided']) > 0 or len(s['unsupported']) > 0
            return kind, name, {'unit': cname, 'mutation': "%s: %r -> %r" % (target, old, new), 'killed': killed, 'flagged': flagged,
                                'failed_clauses': sorted({o['clause'] for o in s['failed']}),
                                'witness': (s['failed'][0].get('replay') or {}).get('inputs') if killed else None,
                                'error': s['error'], 'unsupported': s['unsupported'][:2], 'secs': s['secs']}
        if kind == 'leangen':
            # statements are regenerated from /repo's current source, then checked by Lean with the committed proof script
            import subprocess, re
            script, path_rel = name
            t0 = time.time()
            g = subprocess.run([sys.executable, os.path.join(ROOT, script)], capture_output=True, text=True, timeout=120,
                               env=dict(os.environ, PYVC_REPO=os.environ.get('PYVC_REPO', '/repo')))
            base = {'unit': 'leangen:' + path_rel, 'paths': 0, 'obligations': 0, 'discharged': 0, 'failed': [], 'undecided': [], 'unsupported': [],
                    'secs': 0, 'solver_secs': 0, 'error': None, 'crosscheck': None, 'canaries': [], 'src_hash': None, 'by_backend': {},
                    'contracts_used': [], 'lemmas_used': [], 'clauses': {}}
            if g.returncode != 0:
                base['undecided'] = [{'id': 'leangen:' + path_rel, 'reason': 'statement extraction failed: ' + (g.stdout + g.stderr)[-300:]}]
                return 'lean', path_rel, base
            path = os.path.join(ROOT, path_rel)
            src = open(path).read()
            n = len(re.findall(r'^theorem gen_', src, flags=re.M))
            p = subprocess.run(['lean', path], capture_output=True, text=True, timeout=1200)
            base['obligations'] = n
            base['secs'] = base['solver_secs'] = round(time.time() - t0, 2)
            bad = [w for w in ('sorry', 'admit') if re.search(r'\b' + w + r'\b', re.sub(r'/-.*?-/', '', src, flags=re.S))]
            if p.returncode == 0 and 'error' not in p.stdout and not bad:
                base['discharged'] = n
                base['by_backend'] = {'lean4-mathlib': n}
            elif 'error' in p.stdout and 'timeout' not in p.stdout.lower():
                base['failed'] = [{'id': 'leangen:%s/lean:generated-statements' % path_rel, 'clause': 'leangen:%s' % path_rel, 'kind': 'lean', 'label': path_rel, 'status': 'failed',
                                   'backend': 'lean4-mathlib', 'secs': base['secs'], 'reason': p.stdout[-600:], 'trace': [],
                                   'goal': 'the formulas extracted from the current source are Mathlib\'s group law', 'model': None,
                                   'replay': {'inputs': None, 'error': 'Lean gives no counterexample'}}]
            else:
                base['undecided'] = [{'id': 'leangen:' + path_rel, 'reason': (p.stdout + p.stderr)[-300:]}]
            return 'lean', path_rel, base
        if kind == 'lean':
            import subprocess, re
            path = os.path.join(ROOT, name)
            src = open(path).read()
            bad = [w for w in ('sorry', 'admit', 'axiom ') if re.search(r'\b' + w.strip() + r'\b', re.sub(r'/-.*?-/', '', src, flags=re.S))]
            t0 = time.time()
            p = subprocess.run(['lean', path], capture_output=True, text=True, timeout=1200)
            n = len(re.findall(r'^theorem ', src, flags=re.M))
            ok = p.returncode == 0 and not bad and 'error' not in p.stdout
            return kind, name, {'unit': 'lean:' + name, 'paths': 0, 'obligations': n, 'discharged': n if ok else 0, 'failed': [],
                                'undecided': [] if ok else [{'id': 'lean:' + name, 'reason': (p.stdout + p.stderr)[-400:] + (' forbidden: %s' % bad if bad else '')}],
                                'unsupported': [], 'secs': round(time.time() - t0, 2), 'solver_secs': round(time.time() - t0, 2), 'error': None, 'crosscheck': None,
                                'canaries': [], 'src_hash': None, 'by_backend': {'lean4-mathlib': n} if ok else {}, 'contracts_used': [], 'lemmas_used': [], 'clauses': {}}
        if kind == 'bounded':
            from pyvc import bounded
            fn = bounded.REGISTRY[name]
            t0 = time.time()
            r = fn(opts)
            r['secs'] = round(time.time() - t0, 2)
            return kind, name, r
    except Exception as ex:
        return kind, name, {'error': "%s: %s\n%s" % (type(ex).__name__, ex, traceback.format_exc()[-2000:]), 'crash': True}


def _child(job, conn):
    if os.environ.get('PYVC_HANG_TRACE'):
        import faulthandler
        faulthandler.dump_traceback_later(int(os.environ.get('PYVC_HANG_AFTER', '120')), file=open(os.path.join(os.environ['PYVC_HANG_TRACE'], 'hang-%d.txt' % os.getpid()), 'w'))
    try:
        conn.send(_work(job))
    except Exception as ex:
        try:
            conn.send((job[0], job[1], {'error': 'worker failed: %r' % ex, 'crash': True}))
        except Exception:
            pass
    finally:
        conn.close()


JOB_TIMEOUT = {'quick': {'unit': 900, 'lemma': 300, 'canary': 240, 'bounded': 600, 'lean': 900, 'leangen': 1000},
               'thorough': {'unit': 1500, 'lemma': 600, 'canary': 900, 'bounded': 1800, 'lean': 1500, 'leangen': 1500}}


MEM_LIMIT_GB = float(os.environ.get('PYVC_JOB_MEM_GB', '10'))


def _rss_gb(pid):
    try:
        with open('/proc/%d/status' % pid) as fh:
            for line in fh:
                if line.startswith('VmRSS:'):
                    return int(line.split()[1]) / (1 << 20)
    except OSError:
        pass
    return 0.0


STOP_AFTER_FAILED_UNITS = int(os.environ.get('PYVC_STOP_AFTER_FAILED_UNITS', '24'))
SKIPPED = []


def run_jobs(jobs, njobs, tier):
    """own scheduler: one process per job, hard wall-clock limit per job (solver timeouts are not always honoured)"""
    ctx = mp.get_context('fork')
    pending = list(jobs)
    # long jobs first
    order = {'leangen': 0, 'lean': 0, 'bounded': 0, 'unit': 1, 'canary': 2, 'lemma': 3}
    pending.sort(key=lambda j: order.get(j[0], 9))
    running = []
    results = []
    failed_units = 0
    while pending or running:
        if failed_units >= STOP_AFTER_FAILED_UNITS and any(j[0] in ('unit', 'canary') for j in pending):
            # a tree that breaks this many units is decided: the remaining unit proofs would only add more of the same
            # (and failing obligations are the expensive ones: every solver runs to its budget)
            dropped = [j for j in pending if j[0] in ('unit', 'canary')]
            pending = [j for j in pending if j[0] not in ('unit', 'canary')]
            SKIPPED.append("%d unit/canary jobs not run: %d units had already failed obligations" % (len(dropped), failed_units))
        while pending and len(running) < njobs:
            job = pending.pop(0)
            pc, cc = ctx.Pipe(duplex=False)
            p = ctx.Process(target=_child, args=(job, cc))
            p.start()
            cc.close()
            running.append((job, p, pc, time.time()))
        still = []
        for job, p, pc, t0 in running:
            done = False
            if pc.poll(0):
                try:
                    results.append(pc.recv())
                    r_ = results[-1]
                    if r_[0] == 'unit' and isinstance(r_[2], dict) and r_[2].get('failed'):
                        failed_units += 1
                except EOFError:
                    results.append((job[0], job[1], {'timeout': True, 'secs': time.time() - t0, 'why': 'worker died'}))
                done = True
            elif not p.is_alive():
                if pc.poll(0.2):
                    results.append(pc.recv())
                else:
                    # killed by the memory limit or by a solver abort: undecided, not a checker crash
                    results.append((job[0], job[1], {'timeout': True, 'secs': time.time() - t0, 'why': 'worker exited with %s' % p.exitcode}))
                done = True
            elif time.time() - t0 > JOB_TIMEOUT[tier][job[0]] or _rss_gb(p.pid) > MEM_LIMIT_GB:
                # (an address-space rlimit makes z3/cvc5 crawl, so resident memory is watched from outside instead)
                p.kill()
                results.append((job[0], job[1], {'timeout': True, 'secs': time.time() - t0}))
                done = True
            if done:
                p.join(1)
                os.system("pkill -P %d >/dev/null 2>&1" % p.pid) if p.pid else None
            else:
                still.append((job, p, pc, t0))
        running = still
        time.sleep(0.05)
    return results


def load_known():
    p = os.path.join(ROOT, 'known_findings.json')
    if not os.path.exists(p):
        return []
    return json.load(open(p)).get('findings', [])


def match_known(known, pid, unit, clause, trace, witness=None):
    for k in known:
        if k.get('status') != 'known' or k.get('property') != pid:
            continue
        if k.get('unit') != unit:
            continue
        if k.get('clause') and k['clause'] not in clause:
            continue
        pats = k.get('path_contains', [])
        joined = " | ".join(trace or [])
        if all(p in joined for p in pats):
            return k
    return None


def main(argv=None):
    ap = argparse.ArgumentParser(prog='vf')
    sub = ap.add_subparsers(dest='cmd')
    c = sub.add_parser('check')
    c.add_argument('pid')
    c.add_argument('--tier', default=os.environ.get('VERIF_TIER', 'quick'))
    c.add_argument('--jobs', type=int, default=int(os.environ.get('VERIF_JOBS', '12')))
    c.add_argument('--only', default=None)
    r = sub.add_parser('replay')
    r.add_argument('path')
    l = sub.add_parser('list')
    args = ap.parse_args(argv)
    if args.cmd == 'check':
        return check(args)
    if args.cmd == 'replay':
        from pyvc import replay
        return replay.main(args.path)
    if args.cmd == 'list':
        reg = load_all()
        for k, c_ in sorted(reg.contracts.items()):
            print(",".join(c_.props), k, "(assumed)" if not c_.verify else "")
        for k, l_ in sorted(reg.lemmas.items()):
            print(",".join(l_.props), "lemma:" + k)
        return 0
    ap.print_help()
    return 2


def check(args):
    from pyvc import report
    t0 = time.time()
    pid = args.pid
    tier = args.tier if args.tier in ('quick', 'thorough') else 'quick'
    seed = int(os.environ.get('VERIF_SEED', '0') or 0)
    try:
        reg = load_all()
        from pyvc import bounded
    except Exception:
        traceback.print_exc()
        print("CHECKER-CRASH while loading contracts")
        return 3
    for name, err in LOAD_ERRORS.items():
        if name.lower().startswith(pid.lower()):
            print("CHECKER-CRASH contract module %s failed to import:\n%s" % (name, err))
            return 3
    both = tier == 'thorough'
    opts = {'seed': seed, 'both': both, 'tier': tier, 'cross_n': 30 if tier == 'quick' else 150, 'native_n': 150 if tier == 'quick' else 1500}
    import glob as _g
    for old_ in _g.glob(os.path.join(ROOT, 'replays', pid + '-*.json')):
        try:
            os.unlink(old_)
        except OSError:
            pass
    jobs = []
    units = [k for k, c_ in reg.contracts.items() if pid in c_.props and c_.verify
             and (tier == 'thorough' or getattr(c_.cls, 'tier', 'quick') != 'thorough')]    # slow units can be left to the thorough tier
    assumed = [k for k, c_ in reg.contracts.items() if pid in c_.props and not c_.verify]
    lemmas = [k for k, l_ in reg.lemmas.items() if pid in l_.props]
    if args.only:
        units = [u for u in units if args.only in u]
    for u in units:
        cu = reg.contracts[u]
        if cu.cases:
            n, ch = len(cu.cases), max(1, cu.case_chunk)
            for a in range(0, n, ch):
                jobs.append(('unit', (u, tuple(range(a, min(n, a + ch)))), opts))
        else:
            jobs.append(('unit', u, opts))
    for l_ in lemmas:
        jobs.append(('lemma', l_, opts))
    for u in units:
        cs = reg.contracts[u].canaries
        n = len(cs) if tier == 'thorough' else min(1, len(cs))
        if getattr(reg.contracts[u].cls, 'slow_canaries', False):
            n = 0          # re-verifying a mutant of this unit exceeds the per-job limit in both tiers (the exploration of
            #                the mutated body does not finish): its canaries are kept as documentation only; the unit is
            #                still guarded by the CPython cross-check and the native sampling of its contract
        for i in range(n):
            jobs.append(('canary', (u, (i + seed) % len(cs) if tier == 'quick' else i), opts))
    for name, meta in bounded.META.items():
        if pid in meta['props']:
            jobs.append(('bounded', name, opts))
    for u in units:
        lg = getattr(reg.contracts[u].cls, 'lean_gen', None)
        if lg:
            jobs.append(('leangen', tuple(lg), opts))
    if not jobs:
        print("no checks registered for", pid)
        return 3
    results = run_jobs(jobs, args.jobs, tier)
    # lemmas used by the units (transitively) are proved under this property too
    done = set(lemmas)
    while True:
        used = set()
        for kind, name, r in results:
            if isinstance(r, dict):
                used |= set(r.get('lemmas_used', []))
        axioms_used = sorted(l_ for l_ in used if l_ in reg.axioms)
        todo = sorted(l_ for l_ in used if l_ not in done and l_ in reg.lemmas)
        if not todo:
            break
        done |= set(todo)
        results += run_jobs([('lemma', l_, opts) for l_ in todo], args.jobs, tier)
    used_all = set()
    for kind, name, r in results:
        if isinstance(r, dict):
            used_all |= set(r.get('lemmas_used', []))
    lean_files = sorted({reg.axioms[a_].lean for a_ in used_all if a_ in reg.axioms and reg.axioms[a_].lean})
    if lean_files:
        results += run_jobs([('lean', lf, opts) for lf in lean_files], args.jobs, tier)
    assumed = list(assumed) + ['axiom:' + a_ for a_ in sorted(used_all) if a_ in reg.axioms]
    for note in SKIPPED:
        print("NOTE " + note)
    return report.finish(pid, tier, seed, results, reg, assumed, time.time() - t0, load_known(), match_known)


if __name__ == '__main__':
    sys.exit(main())
