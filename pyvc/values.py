"""Value universe of the pyvc symbolic interpreter.

Concrete Python values (int, bool, bytes, str, None, tuples, functions, classes,
modules, opaque immutable objects) stay native.  Symbolic values are SV
instances carrying a z3 expression and a *kind*.  Mutable things (lists,
bytearrays, BytesIO, dicts, class instances) are Loc references into the
per-path heap.
"""
import decimal
import z3

IntSeq = z3.SeqSort(z3.IntSort())

# kinds: 'int' 'bool' 'bytes' 'str' ('seq', k) ('rec', RecType) ('abs', name) ('tup', (k,...))

_abs_sorts = {}
_tup_sorts = {}


def sort_of(kind):
    if kind == 'int':
        return z3.IntSort()
    if kind == 'bool':
        return z3.BoolSort()
    if kind in ('bytes', 'str'):
        return IntSeq
    if isinstance(kind, tuple):
        if kind[0] == 'seq':
            return z3.SeqSort(sort_of(kind[1]))
        if kind[0] == 'rec':
            return kind[1].adt
        if kind[0] == 'abs':
            if kind[1] not in _abs_sorts:
                _abs_sorts[kind[1]] = z3.DeclareSort(kind[1])
            return _abs_sorts[kind[1]]
        if kind[0] == 'tup':
            if kind[1] not in _tup_sorts:
                nm = "Tup_" + "_".join(kind_name(k) for k in kind[1])
                dt = z3.Datatype(nm)
                dt.declare("mk", *[("e%d" % i, sort_of(k)) for i, k in enumerate(kind[1])])
                _tup_sorts[kind[1]] = dt.create()
            return _tup_sorts[kind[1]]
    raise ValueError("no sort for kind %r" % (kind,))


def kind_name(kind):
    if isinstance(kind, str):
        return kind
    if kind[0] == 'seq':
        return "seq" + kind_name(kind[1])
    if kind[0] == 'rec':
        return kind[1].name
    if kind[0] == 'abs':
        return kind[1]
    if kind[0] == 'tup':
        return "tup" + "".join(kind_name(k) for k in kind[1])
    return str(kind)


class RecType:
    """value-semantics record for instances of a real class (elements of symbolic collections)"""
    registry = {}

    def __init__(self, name, cls, fields):
        self.name, self.cls, self.fields = name, cls, dict(fields)
        dt = z3.Datatype(name)
        dt.declare("mk_" + name, *[(name + "_" + f, sort_of(k)) for f, k in self.fields.items()])
        self.adt = dt.create()
        self.ctor = self.adt.constructor(0)
        self.acc = {f: self.adt.accessor(0, i) for i, f in enumerate(self.fields)}
        RecType.registry[cls] = self

    def make(self, **vals):
        return SV(self.ctor(*[lift(vals[f], k).e for f, k in self.fields.items()]), ('rec', self))


class SV:
    __slots__ = ('e', 'kind')

    def __init__(self, e, kind):
        self.e, self.kind = e, kind

    def __repr__(self):
        s = str(self.e)
        return "SV<%s:%s>" % (kind_name(self.kind), s if len(s) < 120 else s[:117] + "...")

    # guard against accidental native use of symbolic values
    def __bool__(self):
        raise TypeError("symbolic value used as native bool")

    def __eq__(self, o):
        raise TypeError("symbolic value compared natively")

    def __hash__(self):
        return id(self)


class Loc:
    """reference to a heap cell"""
    __slots__ = ('id',)

    def __init__(self, id):
        self.id = id

    def __repr__(self):
        return "Loc#%d" % self.id

    def __eq__(self, o):
        return isinstance(o, Loc) and o.id == self.id

    def __hash__(self):
        return hash(('Loc', self.id))


class Unsupported(Exception):
    pass


def is_sym(v):
    return isinstance(v, SV)


def has_sym(v):
    """does a (possibly nested meta-level) value contain symbolic parts or heap refs"""
    if isinstance(v, (SV, Loc)):
        return True
    if isinstance(v, (tuple, list)):
        return any(has_sym(x) for x in v)
    return False


def bytes_lit(b):
    if len(b) == 0:
        return z3.Empty(IntSeq)
    us = [z3.Unit(z3.IntVal(x)) for x in b]
    return us[0] if len(us) == 1 else z3.Concat(*us)


def lift(v, kind=None):
    """native immutable value -> SV (SV passes through)"""
    if isinstance(v, SV):
        if kind is not None and v.kind != kind:
            if kind == 'int' and v.kind == 'bool':
                return SV(z3.If(v.e, z3.IntVal(1), z3.IntVal(0)), 'int')
            raise Unsupported("kind mismatch: have %s want %s" % (kind_name(v.kind), kind_name(kind)))
        return v
    if isinstance(v, decimal.Decimal) and v == v.to_integral_value():
        v = int(v)      # integral Decimal constants (MAX_MONEY) compare and add like ints
    if isinstance(v, bool):
        if kind == 'int':
            return SV(z3.IntVal(int(v)), 'int')
        return SV(z3.BoolVal(v), 'bool')
    if isinstance(v, int):
        if kind == 'bool':
            raise Unsupported("int where bool expected")
        return SV(z3.IntVal(v), 'int')
    if isinstance(v, (bytes, bytearray)):
        return SV(bytes_lit(bytes(v)), 'bytes')
    if isinstance(v, str):
        return SV(bytes_lit([ord(c) for c in v]), 'str')
    if isinstance(v, (tuple, list)) and kind is not None and kind[0] == 'seq':
        if len(v) == 0:
            return SV(z3.Empty(sort_of(kind)), kind)
        us = [z3.Unit(lift(x, kind[1]).e) for x in v]
        return SV(us[0] if len(us) == 1 else z3.Concat(*us), kind)
    if isinstance(v, tuple) and kind is not None and kind[0] == 'tup':
        s = sort_of(kind)
        return SV(s.constructor(0)(*[lift(x, k).e for x, k in zip(v, kind[1])]), kind)
    raise Unsupported("cannot lift %r to %r" % (type(v).__name__, kind))


def kind_of(v):
    if isinstance(v, SV):
        return v.kind
    if isinstance(v, decimal.Decimal) and v == v.to_integral_value():
        return 'int'
    if isinstance(v, bool):
        return 'bool'
    if isinstance(v, int):
        return 'int'
    if isinstance(v, (bytes, bytearray)):
        return 'bytes'
    if isinstance(v, str):
        return 'str'
    return None


def fresh(name, kind, counter=[0]):
    counter[0] += 1
    return SV(z3.Const("%s!%d" % (name, counter[0]), sort_of(kind)), kind)


def simp(e):
    return z3.simplify(e)


def concrete_of(v):
    """if an SV is a literal constant return (True, native) else (False, None)"""
    if not isinstance(v, SV):
        return True, v
    e = z3.simplify(v.e)
    if v.kind == 'int' and z3.is_int_value(e):
        return True, e.as_long()
    if v.kind == 'bool':
        if z3.is_true(e):
            return True, True
        if z3.is_false(e):
            return True, False
    if v.kind in ('bytes', 'str'):
        r = _seq_const(e)
        if r is not None:
            return True, (bytes(r) if v.kind == 'bytes' else "".join(map(chr, r)))
    return False, None


def _seq_const(e):
    """z3 Seq(Int) literal -> list of ints or None (iterative: literals can be deeply nested)"""
    out = []
    stack = [e]
    while stack:
        x = stack.pop()
        if not z3.is_app(x):
            return None
        k = x.decl().kind()
        if k == z3.Z3_OP_SEQ_EMPTY:
            continue
        if k == z3.Z3_OP_SEQ_UNIT:
            a = x.arg(0)
            if not z3.is_int_value(a):
                return None
            out.append(a.as_long())
        elif k == z3.Z3_OP_SEQ_CONCAT:
            for i in range(x.num_args() - 1, -1, -1):
                stack.append(x.arg(i))
        else:
            return None
    return out
