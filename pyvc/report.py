"""Aggregation of results into evidence, VIOLATION / KNOWN-FINDING lines and the exit status."""
import json
import os
import pickle
import base64
import time

ROOT = os.path.dirname(os.path.dirname(os.path.abspath(__file__)))

TRUSTED = [
    "pyvc VC generator (/verif/pyvc): AST->SMT encoding of the Python subset, built-in models of len/slicing/struct/BytesIO/bytearray/list/dict (cross-checked against CPython on every run)",
    "z3 5.1.0 (in-process and CLI), cvc5 1.0.3, z3 4.8.12 as SMT back ends; a z3 'sat' is believed only after its model is re-evaluated against the query",
    "executable specification functions under /verif/spec (transcriptions of the Bitcoin wire format / consensus rules / BIPs)",
    "CPython 3.11 (engine) and the real pycoin modules imported from /repo for table/closure resolution",
]


def _level_for(pid):
    try:
        man = json.load(open(os.path.join(ROOT, 'MANIFEST.json')))
        for c in man['checks']:
            if c['property_id'] == pid:
                return c['level_claimed']['category']
    except Exception:
        pass
    return 'other'


def finish(pid, tier, seed, results, reg, assumed, wall, known, match_known):
    units, lemmas, canaries, boundeds, crashes = [], [], [], [], []
    timeouts = []
    for kind, name, r in results:
        if r.get('crash'):
            crashes.append((kind, name, r['error']))
            continue
        if r.get('timeout'):
            timeouts.append((kind, name))
            continue
        {'unit': units, 'lemma': lemmas, 'lean': lemmas, 'leangen': lemmas, 'canary': canaries, 'bounded': boundeds}[kind].append((name, r))
    obligations = discharged = 0
    by_backend = {}
    solver_secs = 0.0
    violations = []       # dict(what, replay)
    known_hits = []
    undecided = []
    samples = []
    cross_evals = 0
    ns_evals = ns_distinct = 0
    cross_mismatch = []
    contracts_used = set()
    for name, r in units + lemmas:
        if r.get('error'):
            crashes.append(('unit', name, r['error']))
            continue
        obligations += r['obligations']
        discharged += r['discharged']
        solver_secs += r['solver_secs']
        contracts_used |= set(r.get('contracts_used', []))
        for b, n in r['by_backend'].items():
            by_backend[b] = by_backend.get(b, 0) + n
        for o in r['undecided']:
            undecided.append({'obligation': o['id'], 'reason': o['reason']})
        for u in r['unsupported']:
            undecided.append({'obligation': name + '/<path>', 'reason': 'unsupported: ' + u['reason']})
        for o in r['failed']:
            rp = o.get('replay') or {}
            nat = rp.get('native') or {}
            confirmed = bool(nat.get('violated'))
            k = match_known(known, pid, name, o['clause'], o.get('trace'))
            entry = {'obligation': o['id'], 'clause': o['clause'], 'unit': name, 'inputs': rp.get('inputs'), 'native': nat, 'pickle': rp.get('pickle'),
                     'confirmed_natively': confirmed, 'backend': o['backend'], 'model': o.get('model'), 'trace': o.get('trace'), 'goal': o.get('goal'),
                     'reason': o.get('reason')}
            if k is not None:
                known_hits.append((k, entry))
            else:
                violations.append(entry)
        ns = r.get('native_sampling')
        if ns:
            ns_evals += ns['evaluations']
            ns_distinct += ns['distinct']
            for nv in ns['violations']:
                already = any(v_['unit'] == name and any(cl.split(':', 1)[-1] in v_['clause'] for cl in nv['clauses']) for v_ in violations)
                if already:
                    continue
                k = match_known(known, pid, name, " ".join(nv['clauses']), None)
                entry = {'obligation': name + '/native:' + nv['clauses'][0], 'clause': " ".join(nv['clauses']), 'unit': name, 'inputs': nv['inputs'],
                         'native': {'violated': nv['clauses'], 'observation': nv['observation']}, 'confirmed_natively': True, 'backend': 'native contract evaluation',
                         'model': None, 'trace': None, 'pickle': nv.get('pickle')}
                if k is not None:
                    known_hits.append((k, entry))
                else:
                    violations.append(entry)
        cc = r.get('crosscheck')
        if cc:
            cross_evals += cc['evaluations'] - cc['skipped_unsupported']
            for m in cc['mismatches']:
                cross_mismatch.append({'unit': name, **m})
        if len(samples) < 6 and r['clauses']:
            cl = sorted(r['clauses'])[0]
            samples.append({'obligation': cl, 'paths': r['clauses'][cl]['paths'], 'unit_src_hash': r.get('src_hash')})
    for kind, name in timeouts:
        undecided.append({'obligation': '%s:%s' % (kind, name), 'reason': 'job exceeded its wall-clock limit and was stopped (undecided, not a violation)'})
    canaries_run = len(canaries)
    canaries_killed = sum(1 for _, r in canaries if r.get('killed'))
    weak = [r for _, r in canaries if not r.get('flagged', r.get('killed'))]
    canaries_flagged = sum(1 for _, r in canaries if r.get('flagged') and not r.get('killed'))
    b_evals = b_distinct = 0
    b_rules = []
    for name, r in boundeds:
        if r.get('error'):
            crashes.append(('bounded', name, r['error']))
            continue
        b_evals += r['evaluations']
        b_distinct += r['distinct_nontrivial']
        b_rules.append("%s: %s" % (name, r['rule']))
        for s in r['samples'][:2]:
            samples.append({'bounded': name, 'case': s})
        for v in r['violations']:
            k = None
            for kf in known:
                if kf.get('status') == 'known' and kf.get('property') == pid and kf.get('bounded') == name and kf.get('key') == v.get('key'):
                    k = kf
            entry = {'obligation': 'bounded:' + name, 'clause': v['what'], 'finding_key': v.get('key'), 'unit': name, 'inputs': v['inputs'], 'native': {'violated': [v['what']], 'observation': v.get('repro')},
                     'confirmed_natively': True, 'backend': 'native run', 'model': None, 'trace': None}
            if k is not None:
                known_hits.append((k, entry))
            else:
                violations.append(entry)
    # ---- stdout
    os.makedirs(os.path.join(ROOT, 'replays'), exist_ok=True)
    out_lines = []
    seen_known = set()
    for k, entry in known_hits:
        if k['id'] not in seen_known:
            seen_known.add(k['id'])
            out_lines.append("KNOWN-FINDING: property=%s %s" % (pid, k['summary']))
    vio_files = []
    for i, v in enumerate(violations):
        path = os.path.join(ROOT, 'replays', "%s-%d-%s.json" % (pid, int(time.time()), i))
        with open(path, 'w') as fh:
            json.dump({'property': pid, **v}, fh, indent=1, default=str)
        tail = "" if v['confirmed_natively'] else " no-failing-input-found"
        fk = (" finding=%s" % v['finding_key']) if v.get('finding_key') else ""
        out_lines.append("VIOLATION property=%s replay=%s obligation=%s%s%s" % (pid, path, v['obligation'], fk, tail))
        vio_files.append(path)
    for u in undecided[:40]:
        out_lines.append("UNDECIDED obligation=%s reason=%s" % (u['obligation'], (u['reason'] or '')[:200]))
    for w in weak:
        out_lines.append("WEAK-CANARY unit=%s mutation=%s (still verifies: contract too weak or engine unsound) %s" % (w.get('unit'), w.get('mutation'), (w.get('error') or '')[:200]))
    for m in cross_mismatch[:10]:
        out_lines.append("ENGINE-MISMATCH unit=%s inputs=%s native=%s engine=%s" % (m['unit'], m['inputs'][:200], m['native'][:200], m['engine'][:200]))
    for kind, name, err in crashes:
        out_lines.append("CHECKER-CRASH %s %s: %s" % (kind, name, err.strip().splitlines()[-1] if err else ''))
    # ---- evidence
    claimed = _level_for(pid)
    level = claimed
    proof_complete = (discharged == obligations and obligations > 0 and not undecided and not known_hits and not crashes)
    if claimed == 'proof' and not proof_complete:
        level = 'other'
    assumptions = [
        "termination of the verified functions is not proved",
        "hashlib / hmac digests are modelled as uninterpreted functions of their input bytes (fixed output length only)",
        "struct/int.to_bytes for widths > 2 are modelled as abstract mutually inverse bijections between [0,256^k) and byte strings of length k",
        "module-level tables and constants of pycoin are read from the imported module and treated as immutable",
    ]
    for a in assumed:
        if a.startswith('axiom:'):
            l_ = reg.axioms[a[6:]]
            assumptions.append("assumed lemma (axiom, not discharged by SMT): %s -- %s%s" % (a[6:], l_.reason, (" [Lean: %s]" % l_.lean) if l_.lean else ""))
            continue
        c = reg.contracts[a]
        assumptions.append("assumed contract (not verified): %s -- %s" % (a, c.assumed_reason or 'external / outside the fragment'))
    for cu in sorted(contracts_used):
        c = reg.contracts.get(cu)
        if c is not None and not c.verify:
            assumptions.append("callee contract assumed at call sites: %s" % cu)
    cov = {
        'obligations': obligations, 'discharged': discharged,
        'checker_cmd': "python3-vt /verif/vf check %s --tier %s" % (pid, tier),
        'trusted_base': TRUSTED,
        'by_backend': by_backend, 'solver_secs': round(solver_secs, 2),
        'units_under_contract': sorted(n for n, _ in units), 'lemmas': sorted(n for n, _ in lemmas),
        'undecided': undecided[:50],
        'canaries_run': canaries_run, 'canaries_killed': canaries_killed, 'canaries_flagged_undecided': canaries_flagged,
        'unit_native_sampling_evaluations': ns_evals,
        'canary_details': [r for _, r in canaries][:30],
        'engine_crosscheck_evaluations': cross_evals, 'engine_crosscheck_mismatches': len(cross_mismatch),
        'evaluations': max(1, b_evals + cross_evals + ns_evals), 'distinct_nontrivial': max(2, b_distinct + ns_distinct),
        'rule': ("bounded stand-ins (never counted as proved): " + " | ".join(b_rules)) if b_rules else "engine cross-check inputs: boundary values of each builder plus seeded random values; distinct_nontrivial is not measured for them (reported conservatively as 2)",
        'samples': samples or [{'note': 'no samples'}],
        'bounded': {name: {k: r[k] for k in ('evaluations', 'distinct_nontrivial', 'rule', 'exhaustive') if k in r} for name, r in boundeds if not r.get('error')},
        'known_findings': [k['id'] for k, _ in known_hits],
        'explanation': ("Tier A: %d/%d proof obligations generated from /repo's current source were discharged (%s). "
                        "Tier B (bounded, not proved): %d evaluations. Open known findings: %d. Undecided: %d."
                        % (discharged, obligations, ", ".join("%s: %d" % kv for kv in sorted(by_backend.items())), b_evals, len(seen_known), len(undecided))),
    }
    ev = {'property_id': pid, 'tier': tier, 'seed': seed, 'level': level, 'coverage': cov, 'assumptions': assumptions,
          'wall_s': round(wall, 2), 'violations': len(violations)}
    # (an experiment against a modified tree -- tools/try_seed.sh -- sends its evidence elsewhere: evidence/ describes /repo)
    ev_dir = os.environ.get('PYVC_EVIDENCE_DIR') or os.path.join(ROOT, 'evidence')
    os.makedirs(ev_dir, exist_ok=True)
    with open(os.path.join(ev_dir, pid + '.json'), 'w') as fh:
        json.dump(ev, fh, indent=1, default=str)
    for l in out_lines:
        print(l)
    print("SUMMARY property=%s tier=%s obligations=%d discharged=%d undecided=%d violations=%d known=%d canaries=%d/%d bounded_evals=%d wall=%.1fs level=%s"
          % (pid, tier, obligations, discharged, len(undecided), len(violations), len(seen_known), canaries_killed, canaries_run, b_evals, wall, level))
    if violations:
        return 1
    if crashes or cross_mismatch or weak:
        return 3
    return 0
