"""Verification of one unit: VC generation, discharge, replay, cross-check, canaries."""
import ast
import copy
import importlib
import inspect
import io
import base64
import os
import pickle
import random
import subprocess
import tempfile
import textwrap
import time
import traceback
import types
import z3

from .values import SV, Loc, Unsupported, lift, simp, concrete_of, has_sym, kind_of, fresh
from .state import Explorer, State, PathEnd, PyRaise, guarded_check
from .interp import Interp, function_ast, qualname_of
from . import api
from .modular import eval_cfn, clauses

Z3_TIMEOUT_MS = int(os.environ.get('PYVC_Z3_TIMEOUT_MS', '45000'))      # wall-clock budgets sized for 16 busy cores (a query that
# needs 7 s alone was seen to need more than 30 s when every core runs a solver)
CVC5_TIMEOUT_MS = int(os.environ.get('PYVC_CVC5_TIMEOUT_MS', '75000'))


def resolve(target):
    """'module:qual.name' -> real object (function), read from the live module under /repo"""
    modname, qual = target.split(':')
    mod = importlib.import_module(modname)
    obj = mod
    for part in qual.split('.'):
        obj = inspect.getattr_static(obj, part) if isinstance(obj, type) else getattr(obj, part)
    if isinstance(obj, (classmethod, staticmethod)):
        obj = obj.__func__
    return obj


def target_function(c):
    if c.func is not None:
        f = c.func()
    else:
        f = resolve(c.target)
    if isinstance(f, types.MethodType):
        f = f.__func__
    return f


class UnitResult:
    def __init__(self, unit):
        self.unit = unit
        self.obligations = []
        self.unsupported = []
        self.paths = 0
        self.secs = 0.0
        self.solver_secs = 0.0
        self.error = None
        self.crosscheck = None
        self.canaries = []
        self.src_hash = None
        self.contracts_used = set()

    def summary(self):
        d = {'unit': self.unit, 'paths': self.paths, 'obligations': len(self.obligations),
             'discharged': sum(1 for o in self.obligations if o['status'] == 'discharged'),
             'failed': [o for o in self.obligations if o['status'] == 'failed'],
             'undecided': [o for o in self.obligations if o['status'] == 'undecided'],
             'unsupported': self.unsupported, 'secs': round(self.secs, 3), 'solver_secs': round(self.solver_secs, 3),
             'error': self.error, 'crosscheck': self.crosscheck, 'canaries': self.canaries, 'src_hash': self.src_hash,
             'by_backend': {}, 'contracts_used': sorted(self.contracts_used), 'lemmas_used': sorted(getattr(self, 'lemmas_used', set())),
             'clauses': {}}
        for o in self.obligations:
            if o['status'] == 'discharged':
                d['by_backend'][o['backend']] = d['by_backend'].get(o['backend'], 0) + 1
            cl = d['clauses'].setdefault(o['clause'], {'paths': 0, 'discharged': 0})
            cl['paths'] += 1
            cl['discharged'] += o['status'] == 'discharged'
        return d


# ------------------------------------------------------------------ running a unit symbolically
def make_runner(c, f, mutate, sink, fixed=None, case=None):
    node, _ = function_ast(f)
    if mutate and c.target in mutate:
        node = mutate[c.target]
    params = [a.arg for a in node.args.posonlyargs + node.args.args]

    def run(st):
        ip = Interp(api.REG, st, mutate, top_unit=c.target)
        for k, v in c.options.items():
            st.ghost[k] = v
        env = {}
        for name, b in c.sig.items():
            if fixed and name in fixed:
                env[name] = b.to_engine(ip, fixed[name])
            else:
                env[name] = b.symbolic(ip, name)
        values = dict(env)
        for real, alias in getattr(c, 'param_alias', {}).items():
            values[alias] = env[real]
        if c.requires is not None:
            for cl in clauses(eval_cfn(ip, c.requires, values)):
                st.assume(ip.zbool(cl))
        if case is not None:
            for cl in clauses(eval_cfn(ip, _plain_fn(c.cases[case][1]), values)):
                st.assume(ip.zbool(cl))
        if c.hints is not None:
            eval_cfn(ip, c.hints, values)
        if not st.ghost.get('_presat_done'):
            if not st.feasible(z3.BoolVal(True)):
                st.oblige('pre-sat', 'requires satisfiable', z3.BoolVal(False))
                raise PathEnd()
        old_heap = {k: dict(v) for k, v in st.heap.items()}
        ip.old_heap = old_heap
        ctx = {'ip': ip, 'env': env, 'sig': c.sig, 'old_heap': old_heap}
        n0 = len(st.x.obligations)

        def tag():
            for ob in list(st.x.obligations.values())[n0:]:
                if ob.ctx is None:
                    ob.ctx = ctx
        closure = {}
        if f.__closure__:
            for nm, cell in zip(f.__code__.co_freevars, f.__closure__):
                try:
                    closure[nm] = cell.cell_contents
                except ValueError:
                    pass
        args = [env[p] for p in params if p in env]
        kw = {}
        if c.cuts:
            import ast as _ast

            def _occurrences(prefix):
                found = []
                for nd in _ast.walk(node):
                    if isinstance(nd, _ast.stmt):
                        try:
                            if _ast.unparse(nd).startswith(prefix):
                                found.append((nd.lineno, nd.col_offset))
                        except Exception:
                            pass
                return sorted(found)
            cut_sites = [_occurrences(p_) for (p_, _f, _k, _a) in c.cuts]

            def cut_hook(fr, stmt):
                try:
                    text = _ast.unparse(stmt)
                except Exception:
                    return
                for k_, (prefix, fn_, nth_, forget_) in enumerate(c.cuts):
                    if text.startswith(prefix):
                        if nth_ is not None and (nth_ >= len(cut_sites[k_]) or cut_sites[k_][nth_] != (stmt.lineno, stmt.col_offset)):
                            continue
                        vals = dict(fr.env)
                        vals.update({kk: vv for kk, vv in values.items() if kk not in vals})
                        for j_, cl in enumerate(clauses(eval_cfn(ip, fn_, vals, old_heap))):
                            z_ = ip.zbool(cl)
                            st.oblige('cut', "%d.%d after %s" % (k_, j_, prefix[:40]), z_)
                            st.assume(z_)
                        if forget_:
                            # abstraction point: from here on the local is an unknown integer of which only the clauses
                            # just proved are known (sound: it forgets, never adds)
                            for nm_ in forget_:
                                old_ = fr.env.get(nm_)
                                if not (isinstance(old_, int) or (isinstance(old_, SV) and old_.kind == 'int')):
                                    raise Unsupported("cut forgets %s which is not an integer local" % nm_)
                                fr.env[nm_] = fresh(nm_ + "_cut", 'int')
                            vals = dict(fr.env)
                            vals.update({kk: vv for kk, vv in values.items() if kk not in vals})
                            for cl in clauses(eval_cfn(ip, fn_, vals, old_heap)):
                                st.assume(ip.zbool(cl))
            ip.cut_hook = cut_hook
        if c.at_return is not None:
            rnode, _ = function_ast(c.at_return)
            rnames = [a_.arg for a_ in rnode.args.args]

            def hook(fr, retval):
                vals = dict(fr.env)
                for k_, v_ in values.items():
                    vals.setdefault('old_' + k_, v_)       # the arguments as they were on entry (parameters may be reassigned)
                vals['result'] = retval
                if all(nm in vals for nm in rnames):
                    eval_cfn(ip, c.at_return, vals, old_heap)
            ip.at_return_hook = hook
        try:
            try:
                result = ip.run_function(node, f.__globals__, c.target, args, kw, closure, f)
            except PyRaise as ex:
                values['exc'] = ex
                matched = [(e, w, iff) for (e, w, iff) in c.raises if issubclass(ex.cls, e)]
                # the most specific listed class speaks for the exception (EncodingError is a ValueError)
                matched = [m_ for m_ in matched if not any(o_[0] is not m_[0] and issubclass(o_[0], m_[0]) for o_ in matched)]
                if not matched:
                    st.oblige('raises', "unlisted %s" % ex.cls.__name__, z3.BoolVal(False)).reason = \
                        "%s(%s) %s" % (ex.cls.__name__, ", ".join(repr(a)[:60] for a in ex.eargs), ex.note)
                else:
                    for (e, w, iff) in matched:
                        if w is not None and iff != 'must':      # 'must': when => raises only; says nothing about when it may
                            st.oblige('raises', "%s allowed" % e.__name__, ip.zbool(eval_pre(ip, w, values, old_heap)))
                sink.append(('raise', ex.cls.__name__))
                return
            values['result'] = result
            for (e, w, iff) in c.raises:
                if iff and w is not None:
                    st.oblige('raises-iff', "%s required" % e.__name__, simp(z3.Not(ip.zbool(eval_pre(ip, w, values, old_heap)))))
            ctx['result'] = result
            for name, ens in c.ensures:
                gz = None
                if name in c.guards:
                    gz = ip.zbool(eval_pre(ip, c.guards[name], values, old_heap))
                    if z3.is_false(simp(gz)) or not st.feasible(gz):
                        continue      # the guard cannot hold on this path: the clause (possibly ill-typed here) says nothing
                pv = eval_cfn(ip, ens, values, old_heap)
                for i, cl in enumerate(clauses(pv)):
                    st.oblige('ensures', "%s.%d" % (name, i), ip.zbool(cl) if gz is None else z3.Implies(gz, ip.zbool(cl)))
            frame_obligations(ip, c, values, old_heap)
            sink.append(('ret', None))
        finally:
            tag()
            st.x.contracts_used = getattr(st.x, 'contracts_used', set()) | st.ghost.get('contracts_used', set())
            st.x.lemmas_used = getattr(st.x, 'lemmas_used', set()) | st.ghost.get('lemmas_used', set())
    return run


def eval_pre(ip, fn, values, old_heap):
    """evaluate a contract function in the pre-state of the call (raises-conditions speak about the inputs)"""
    st = ip.st
    cur = st.heap
    st.heap = {k: dict(c) for k, c in old_heap.items()}
    try:
        return eval_cfn(ip, fn, values, old_heap)
    finally:
        st.heap = cur


def _plain_fn(f):
    return f.__func__ if isinstance(f, (staticmethod, classmethod)) else f


def _reachable(ip, heap, v, acc):
    if isinstance(v, Loc):
        if v.id in acc:
            return
        acc.add(v.id)
        c = heap.get(v.id)
        if c is None:
            return
        for x in c.values():
            _reachable(ip, heap, x, acc)
    elif isinstance(v, (tuple, list)):
        for x in v:
            _reachable(ip, heap, x, acc)
    elif isinstance(v, dict):
        for x in v.values():
            _reachable(ip, heap, x, acc)


def frame_obligations(ip, c, env, old_heap):
    """everything that existed before the call and is not listed in assigns is unchanged"""
    st = ip.st
    allowed = set()
    for nm in c.assigns:
        only = nm.endswith('!')          # 'x!' = the object x itself, not the objects reachable from it
        nm = nm.rstrip('!')
        v = env.get(nm.split('.')[0])
        for attr in nm.split('.')[1:]:
            v = old_heap[v.id]['f'][attr]
        if only:
            allowed.add(v.id)
        else:
            _reachable(ip, old_heap, v, allowed)
    for k, oc in old_heap.items():
        if k in allowed:
            continue
        nc = st.heap.get(k)
        if nc is None:
            continue
        goals = []
        _cell_same(ip, oc, nc, goals)
        if goals:
            g = simp(z3.And(*goals)) if len(goals) > 1 else goals[0]
            st.oblige('assigns', "cell#%d(%s) unchanged" % (k, oc.get('cls').__name__ if oc.get('cls') else oc['k']), g)


def _cell_same(ip, oc, nc, goals):
    for fld in set(oc) | set(nc):
        a, b = oc.get(fld), nc.get(fld)
        _val_same(ip, a, b, goals)


def _val_same(ip, a, b, goals):
    if a is b:
        return
    if isinstance(a, dict) and isinstance(b, dict):
        if set(a) != set(b):
            goals.append(z3.BoolVal(False))
            return
        for k in a:
            _val_same(ip, a[k], b[k], goals)
        return
    if isinstance(a, (list, tuple)) and isinstance(b, (list, tuple)):
        if len(a) != len(b):
            goals.append(z3.BoolVal(False))
            return
        for x, y in zip(a, b):
            _val_same(ip, x, y, goals)
        return
    if isinstance(a, Loc) or isinstance(b, Loc):
        if not (isinstance(a, Loc) and isinstance(b, Loc) and a.id == b.id):
            goals.append(z3.BoolVal(False))
        return
    if isinstance(a, SV) or isinstance(b, SV):
        ka, kb = kind_of(a), kind_of(b)
        if ka != kb or ka is None:
            goals.append(z3.BoolVal(False))
        else:
            goals.append(lift(a).e == lift(b).e)
        return
    try:
        if not (a == b):
            goals.append(z3.BoolVal(False))
    except Exception:
        goals.append(z3.BoolVal(False))


# ------------------------------------------------------------------ discharge
def _run_cli(cmd, text, timeout_s):
    with tempfile.NamedTemporaryFile('w', suffix='.smt2', delete=False, dir=os.environ.get('PYVC_TMP') or ('/dev/shm' if os.path.isdir('/dev/shm') else None)) as fh:
        fh.write(text)
        fn = fh.name
    try:
        p = subprocess.run(cmd + [fn], capture_output=True, text=True, timeout=timeout_s)
        out = p.stdout.strip().splitlines()
        if not out:
            return 'timeout' if 'timeout' in p.stderr else 'error:' + p.stderr.strip()[:120]
        return out[0].strip()
    except subprocess.TimeoutExpired:
        return 'timeout'
    except Exception as ex:
        return 'error:' + repr(ex)
    finally:
        try:
            os.unlink(fn)
        except OSError:
            pass


Z3_QUICK_MS = int(os.environ.get('PYVC_Z3_QUICK_MS', '2500'))
SAT_GRACE_S = float(os.environ.get('PYVC_SAT_GRACE_S', '8'))     # how long a cvc5 'sat' waits for a contradicting 'unsat'
CVC5_QUICK_MS = int(os.environ.get('PYVC_CVC5_QUICK_MS', '8000'))


def _z3_try(ob, timeout_ms):
    s = z3.Solver()
    s.set('timeout', timeout_ms)
    for h in ob.hyps:
        s.add(h)
    s.add(z3.Not(ob.goal))
    r = guarded_check(s, timeout_ms)
    if r == z3.unsat:
        return 'unsat', None, s
    if r == z3.sat:
        m = s.model()
        try:
            for h in list(ob.hyps) + [z3.Not(ob.goal)]:
                if not z3.is_true(m.eval(h, model_completion=True)):
                    return 'bogus-sat', None, s
        except z3.Z3Exception:
            return 'bogus-sat', None, s
        return 'sat', m, s
    try:
        why = s.reason_unknown()
    except z3.Z3Exception:
        why = 'interrupted'
    return 'unknown:' + why, None, s


def _race(text, budget_s):
    """run cvc5, the z3 5.1 CLI and z3 4.8 on the same SMT-LIB text concurrently; the first 'unsat' wins"""
    with tempfile.NamedTemporaryFile('w', suffix='.smt2', delete=False, dir=os.environ.get('PYVC_TMP') or ('/dev/shm' if os.path.isdir('/dev/shm') else None)) as fh:
        fh.write(text)
        fn = fh.name
    cmds = {'cvc5-1.0.3': ['/usr/bin/cvc5', '--strings-exp', '--tlimit=%d' % int(budget_s * 1000), fn],
            'z3-5.1.0-cli': ['z3-new', '-T:%d' % int(budget_s), fn],
            'z3-4.8.12': ['/usr/bin/z3', '-T:%d' % int(budget_s), fn]}
    procs = {}
    try:
        for k, c in cmds.items():
            try:
                procs[k] = subprocess.Popen(c, stdout=subprocess.PIPE, stderr=subprocess.PIPE, text=True)
            except OSError:
                pass
        answers = {}
        t0 = time.time()
        sat_at = None
        while procs and time.time() - t0 < budget_s + 5:
            for k, p in list(procs.items()):
                if p.poll() is not None:
                    out = (p.stdout.read() or '').strip().splitlines()
                    answers[k] = out[0].strip() if out else 'timeout'
                    del procs[k]
                    # z3's sequence solver can answer 'sat' with an unsound model; without the model to
                    # re-check, only cvc5's 'sat' counts (any back end's 'unsat' is definitive).  A cvc5 'sat' is held
                    # until the other solvers have answered or run out of time: an 'unsat' from one of them makes it a
                    # disagreement (undecided), not a refutation
                    if answers[k] == 'unsat':
                        if any(v_ == 'sat' and k_.startswith('cvc5') for k_, v_ in answers.items()):
                            return None, 'unknown', dict(answers, note='solver disagreement: cvc5 sat, %s unsat' % k)
                        return k, 'unsat', answers
            if not procs or time.time() - t0 >= budget_s + 5:
                break
            if sat_at is None and any(v_ == 'sat' and k_.startswith('cvc5') for k_, v_ in answers.items()):
                sat_at = time.time()
            if sat_at is not None and time.time() - sat_at > SAT_GRACE_S:
                break          # the others had their chance to contradict cvc5's 'sat'
            time.sleep(0.02)
        for k_, v_ in answers.items():
            if v_ == 'sat' and k_.startswith('cvc5'):
                return k_, 'sat', answers
        return None, 'unknown', answers
    finally:
        for p in procs.values():
            try:
                p.kill()
            except OSError:
                pass
        try:
            os.unlink(fn)
        except OSError:
            pass


def _solve(ob, both):
    """full portfolio for one obligation; runs inside a forked child (so that a solver that ignores its
    timeout can be killed).  Returns a picklable dict."""
    t0 = time.time()
    zver = 'z3-%s' % z3.get_version_string()
    out = {'status': 'undecided', 'backend': zver, 'reason': ob.reason or '', 'model': None, 'nargs': None, 'second': None}
    notes = []
    v, m, s = _z3_try(ob, Z3_QUICK_MS)
    if v == 'unsat':
        out['status'] = 'discharged'
    elif v == 'sat':
        out['status'] = 'failed'
    else:
        notes.append('z3:' + v)
    if out['status'] == 'undecided' or (both and out['status'] == 'discharged'):
        text = "(set-logic ALL)\n" + s.to_smt2()
        text = text.replace('seq.nth_i', 'seq.nth').replace('seq.nth_u', 'seq.nth')
        if os.environ.get('PYVC_DUMP_DIR'):      # development aid: keep the queries the in-process solver left open
            with open(os.path.join(os.environ['PYVC_DUMP_DIR'], ''.join(ch if ch.isalnum() or ch in '_.@#-' else '_' for ch in ob.oid)[-120:] + '.smt2'), 'w') as fh_:
                fh_.write(text)
        budget = max(CVC5_TIMEOUT_MS, Z3_TIMEOUT_MS) / 1000.0
        who, ans, answers = _race(text, budget)
        if out['status'] == 'discharged':
            out['second'] = answers
            if ans == 'sat':
                out['status'] = 'undecided'
                notes.append('solver disagreement: z3 unsat, %s sat' % who)
        elif ans == 'unsat':
            out['status'], out['backend'] = 'discharged', who
        elif ans == 'sat':
            out['status'], out['backend'] = 'failed', who
            v2, m, _ = _z3_try(ob, min(Z3_TIMEOUT_MS, 15000))     # only to obtain a model for the replay
            if v2 == 'unsat':
                out['status'] = 'undecided'
                notes.append('solver disagreement: %s sat, z3 unsat' % who)
            elif v2 != 'sat':
                m = None
        else:
            notes.append('; '.join('%s:%s' % kv for kv in sorted(answers.items())))
    if out['status'] == 'failed' and m is not None:
        out['model'] = str(m)[:1500]
        ctx = ob.ctx
        if ctx is not None:
            try:
                nargs = {name: b.from_model(ctx['ip'], m, ctx['env'][name]) for name, b in ctx['sig'].items() if not isinstance(b, api.Const) and not getattr(b, 'no_pickle', False)}
                out['nargs'] = pickle.dumps(nargs)
            except Exception as ex:
                out['nargs_error'] = 'model concretisation failed: %r' % ex
    if notes:
        out['reason'] = ((out['reason'] + ' ') if out['reason'] else '') + '; '.join(notes)
    out['secs'] = time.time() - t0
    return out


def _fork_batch(batch, both):
    """child solves the obligations of `batch` in order, streaming one length-prefixed pickle per result"""
    r, w = os.pipe()
    pid = os.fork()
    if pid == 0:
        code = 0
        try:
            os.close(r)
            with os.fdopen(w, 'wb') as fh:
                for ob in batch:
                    try:
                        res = _solve(ob, both)
                    except BaseException as ex:
                        res = {'status': 'undecided', 'backend': None, 'reason': 'solver child error: %r' % ex, 'secs': 0.0}
                    data = pickle.dumps(res)
                    fh.write(len(data).to_bytes(8, 'little') + data)
                    fh.flush()
        except BaseException:
            code = 1
        finally:
            os._exit(code)
    os.close(w)
    os.set_blocking(r, False)
    return pid, r


BATCH = int(os.environ.get('PYVC_SOLVER_BATCH', '12'))


def discharge_all(obs, both=False, threads=None, stop_on_failure=False):
    """discharge obligations in forked children (<= threads at a time, a batch of obligations per child) with a
    hard wall-clock limit per obligation: a solver that ignores its timeout is killed and the obligation is undecided"""
    threads = threads or int(os.environ.get('PYVC_SOLVER_PROCS', '4'))
    limit = (Z3_QUICK_MS + Z3_TIMEOUT_MS) / 1000.0 + max(CVC5_TIMEOUT_MS, Z3_TIMEOUT_MS) / 1000.0 + 15
    pending = list(obs)
    running = []      # [batch, pid, fd, t_last, buf, next_index]
    bsize = max(1, min(BATCH, (len(pending) + threads - 1) // threads))
    while pending or running:
        while pending and len(running) < threads:
            batch, pending = pending[:bsize], pending[bsize:]
            pid, fd = _fork_batch(batch, both)
            running.append([batch, pid, fd, time.time(), b"", 0])
        still = []
        for item in running:
            batch, pid, fd, t_last, buf, nxt = item
            eof = False
            try:
                while True:
                    chunk = os.read(fd, 1 << 16)
                    if not chunk:
                        eof = True
                        break
                    item[4] += chunk
            except BlockingIOError:
                pass
            while len(item[4]) >= 8:
                n = int.from_bytes(item[4][:8], 'little')
                if len(item[4]) < 8 + n:
                    break
                data, item[4] = item[4][8:8 + n], item[4][8 + n:]
                try:
                    res = pickle.loads(data)
                except Exception:
                    res = {'status': 'undecided', 'backend': None, 'reason': 'unreadable solver result', 'secs': 0.0}
                _apply(batch[item[5]], res)
                item[5] += 1
                item[3] = time.time()
                if stop_on_failure and res.get('status') == 'failed':
                    # a canary mutant is decided by its first failed obligation: the rest is not attempted
                    for it2 in running:
                        try:
                            os.kill(it2[1], 9)
                            os.system("pkill -9 -P %d >/dev/null 2>&1" % it2[1])
                            os.close(it2[2])
                            os.waitpid(it2[1], 0)
                        except OSError:
                            pass
                        for ob_ in it2[0][it2[5]:]:
                            if ob_.status is None:
                                _apply(ob_, {'status': 'undecided', 'backend': None, 'reason': 'not attempted: the mutant is already refuted', 'secs': 0.0})
                    for ob_ in pending:
                        _apply(ob_, {'status': 'undecided', 'backend': None, 'reason': 'not attempted: the mutant is already refuted', 'secs': 0.0})
                    return
            if item[5] >= len(batch) or eof:
                os.close(fd)
                try:
                    os.kill(pid, 9)
                except OSError:
                    pass
                os.waitpid(pid, 0)
                rest = batch[item[5]:]
                if rest:       # child died early
                    _apply(rest[0], {'status': 'undecided', 'backend': None, 'reason': 'solver child died', 'secs': 0.0})
                    pending = rest[1:] + pending
            elif time.time() - item[3] > limit:
                try:
                    os.kill(pid, 9)
                    os.system("pkill -9 -P %d >/dev/null 2>&1" % pid)
                except OSError:
                    pass
                os.close(fd)
                os.waitpid(pid, 0)
                rest = batch[item[5]:]
                _apply(rest[0], {'status': 'undecided', 'backend': None, 'reason': 'solver exceeded hard limit of %ds (killed)' % limit, 'secs': limit})
                pending = rest[1:] + pending
            else:
                still.append(item)
        running = still
        if running:
            time.sleep(0.005)
    return obs


def _apply(ob, res):
    ob.status = res['status']
    ob.backend = res.get('backend')
    ob.reason = res.get('reason') or None
    ob.secs = res.get('secs', 0.0)
    ob.model = res.get('model')
    ob.second = res.get('second')
    ob.smt2 = res.get('nargs')            # pickled native inputs (reusing the slot)
    ob.need_model = res.get('nargs_error')


# ------------------------------------------------------------------ native evaluation of contract clauses
class _OldRewriter(ast.NodeTransformer):
    def __init__(self):
        self.olds = []

    def visit_Call(self, n):
        if isinstance(n.func, ast.Name) and n.func.id == 'old' and len(n.args) == 1:
            self.olds.append(n.args[0])
            return ast.Subscript(value=ast.Name(id='__old__', ctx=ast.Load()), slice=ast.Constant(len(self.olds) - 1), ctx=ast.Load())
        return self.generic_visit(n)


def native_clause(fn):
    """returns (pre(values)->olds, post(values, olds)->value) evaluating a contract function natively"""
    src = textwrap.dedent(inspect.getsource(fn))
    tree = ast.parse(src)
    fd = tree.body[0]
    fd.decorator_list = []
    rw = _OldRewriter()
    fd = rw.visit(fd)
    names = [a.arg for a in fd.args.args]
    fd.args.args.append(ast.arg(arg='__old__'))
    ast.fix_missing_locations(tree)
    g = dict(fn.__globals__)
    if fn.__closure__:
        # the clause is recompiled at module level: its free variables become globals of that private namespace
        for nm_, cell_ in zip(fn.__code__.co_freevars, fn.__closure__):
            try:
                g[nm_] = cell_.cell_contents
            except ValueError:
                pass
    exec(compile(tree, '<contract %s>' % fn.__qualname__, 'exec'), g)
    post_f = g[fd.name]
    old_exprs = [compile(ast.fix_missing_locations(ast.Expression(e)), '<old>', 'eval') for e in rw.olds]

    def pre(values):
        env = dict(g)
        env.update(values)
        out = []
        for e in old_exprs:
            v = eval(e, env)
            out.append(copy.deepcopy(v))
        return out

    def post(values, olds):
        return post_f(*[values[n] for n in names], olds)
    return pre, post, names


def native_check(c, f, nargs, want_kind=None):
    """run the real function natively on nargs (dict name->native) and evaluate the contract natively.
    returns dict(observation=..., violated=[clause names])"""
    values = {k: (c.sig[k].native_copy(v) if k in c.sig else v) for k, v in nargs.items()}
    for real, alias in getattr(c, 'param_alias', {}).items():
        values[alias] = values[real]
    obs = {}
    violated = []
    try:
        if c.requires is not None:
            pre_ok = native_clause(c.requires)[1](values, [])
            pre_ok = all(pre_ok) if isinstance(pre_ok, tuple) else bool(pre_ok)
            if not pre_ok:
                return {'observation': 'precondition false on these inputs', 'violated': [], 'pre': False}
    except Exception as ex:
        return {'observation': 'precondition evaluation failed: %r' % ex, 'violated': [], 'pre': None}
    ens = []
    for name, e in c.ensures:
        if name in c.guards:
            try:
                gpre, gpost, _g = native_clause(c.guards[name])
                if not gpost(values, gpre(values)):
                    continue
            except Exception:
                continue
        pre, post, _ = native_clause(e)
        ens.append((name, post, pre(values)))
    whens = []
    for (exc, w, iff) in c.raises:
        if w is not None:
            pre, post, names_ = native_clause(w)
            try:
                wv = bool(post({k: x for k, x in values.items()}, pre(values)))
            except Exception as ex_:
                wv = None
            whens.append((exc, wv, None, iff))
        else:
            whens.append((exc, None, None, iff))
    node, _ = function_ast(f)
    params = [a.arg for a in node.args.posonlyargs + node.args.args]
    alias = getattr(c, 'param_alias', {})
    def _frame_view(k, val):
        """normal form of parameter k with everything the contract lets the callee assign removed (None: all of it)"""
        names = {k, alias.get(k, k)}
        attrs = set()
        for a_ in c.assigns:
            a_ = a_.rstrip('!')
            base, _, rest = a_.partition('.')
            if base in names:
                if not rest:
                    return None
                attrs.add(rest.split('.')[0])
        n_ = _norm_native(val)
        if attrs and isinstance(n_, tuple) and len(n_) == 3 and n_[0] == 'obj':
            return ('obj', n_[1], {kk: vv for kk, vv in n_[2].items() if kk not in attrs})
        return n_
    frame_before = {k: _frame_view(k, v) for k, v in values.items() if k in c.sig}
    try:
        result = f(*[values[p] for p in params if p in values])
    except Exception as ex:
        obs['raised'] = "%s: %s" % (type(ex).__name__, ex)
        matched = [(e, w, o, iff) for (e, w, o, iff) in whens if isinstance(ex, e)]
        matched = [m_ for m_ in matched if not any(o_[0] is not m_[0] and issubclass(o_[0], m_[0]) for o_ in matched)]
        if not matched:
            violated.append('raises:unlisted %s' % type(ex).__name__)
        for (e, w, o, iff) in matched:
            if iff == 'must':
                continue
            if w is False and not any(w2 is not False for (e2, w2, o2, i2) in matched if e2 is not e):
                violated.append('raises:%s allowed' % e.__name__)
        return {'observation': obs, 'violated': violated, 'pre': True}
    if isinstance(result, types.GeneratorType):
        result = tuple(result)          # a generator function's result is the sequence it yields
    obs['returned'] = repr(_norm_native(result))[:400]
    values['result'] = result
    for (e, w, o, iff) in whens:
        if iff and w is True:
            violated.append('raises-iff:%s required' % e.__name__)
    for name, post, olds in ens:
        try:
            r = post(values, olds)
        except Exception as ex2:
            obs['clause_error'] = "%s: %r" % (name, ex2)     # the clause could not be evaluated natively: no verdict
            continue
        rs = list(r) if isinstance(r, tuple) else [r]
        for i, x in enumerate(rs):
            if not x:
                violated.append('ensures:%s.%d' % (name, i))
    for k, before in frame_before.items():
        if before is not None and _frame_view(k, values[k]) != before:
            violated.append('assigns:%s changed' % k)
    return {'observation': obs, 'violated': violated, 'pre': True}


def _norm_native(v):
    if isinstance(v, io.BytesIO):
        return ('bytesio', v.getvalue(), v.tell())
    if isinstance(v, bytearray):
        return ('bytearray', bytes(v))
    if isinstance(v, list):
        return [_norm_native(x) for x in v]
    if isinstance(v, tuple):
        return tuple(_norm_native(x) for x in v)       # also Point / Generator (tuple subclasses): their coordinates
    if isinstance(v, dict):
        return {k: _norm_native(x) for k, x in v.items()}
    if isinstance(v, (int, bool, bytes, str, type(None), float)):
        return v
    if isinstance(v, BaseException):
        return ('exc', type(v).__name__)
    if hasattr(v, '__dict__') and not isinstance(v, (type, types.FunctionType, types.ModuleType)):
        return ('obj', type(v).__name__, {k: _norm_native(x) for k, x in sorted(vars(v).items())})
    return v


def _canon(v):
    if isinstance(v, (list, tuple)):
        return [_canon(x) for x in v]
    if isinstance(v, dict):
        return {k: _canon(x) for k, x in v.items()}
    return v


def _same_up_to_unmodelled_attributes(a, b):
    """engine and CPython outcomes agree; objects are compared on the attributes both sides have (a native object built by
    its constructor may carry attributes the argument builder does not model)"""
    if isinstance(a, list) and isinstance(b, list):
        if len(a) == 3 and len(b) == 3 and a[0] == 'obj' and b[0] == 'obj' and isinstance(a[2], dict) and isinstance(b[2], dict):
            if a[1] != b[1]:
                return False
            return all(_same_up_to_unmodelled_attributes(a[2][k], b[2][k]) for k in a[2].keys() & b[2].keys())
        return len(a) == len(b) and all(_same_up_to_unmodelled_attributes(x, y) for x, y in zip(a, b))
    if isinstance(a, dict) and isinstance(b, dict):
        return a.keys() == b.keys() and all(_same_up_to_unmodelled_attributes(a[k], b[k]) for k in a)
    return a == b


def engine_to_native(ip, v, heap=None):
    heap = heap if heap is not None else ip.st.heap
    if isinstance(v, SV):
        if v.kind[0] == 'rec':
            rt = v.kind[1]
            return ('obj', rt.cls.__name__, {k: engine_to_native(ip, SV(simp(rt.acc[k](v.e)), kk), heap) for k, kk in sorted(rt.fields.items())})
        if v.kind[0] == 'seq':
            return tuple(_seq_items_native(ip, v, heap))
        ok, cv = concrete_of(v)
        if not ok:
            raise Unsupported("engine value not concrete in cross-check: %r" % (v,))
        return cv
    if isinstance(v, Loc):
        c = heap[v.id]
        k = c['k']
        if k == 'bytesio':
            return ('bytesio', engine_to_native(ip, c['data'], heap), engine_to_native(ip, c['pos'], heap))
        if k == 'bytearray':
            return ('bytearray', engine_to_native(ip, c['data'], heap))
        if k == 'list':
            if 'items' in c:
                return [engine_to_native(ip, x, heap) for x in c['items']]
            ok, items = _seq_items(c['seq'])
            return items
        if k == 'dict':
            return {kk: engine_to_native(ip, x, heap) for kk, x in c['d'].items()}
        if k == 'set':
            return set(engine_to_native(ip, x, heap) for x in c['items'])
        if k == 'obj':
            return ('obj', c['cls'].__name__, {kk: engine_to_native(ip, x, heap) for kk, x in sorted(c['f'].items())})
        return ('cell', k)
    if isinstance(v, tuple):
        return tuple(engine_to_native(ip, x, heap) for x in v)
    if isinstance(v, list):
        return [engine_to_native(ip, x, heap) for x in v]
    return _norm_native(v)


def _seq_items_native(ip, s, heap):
    e = simp(s.e)
    n = simp(z3.Length(e))
    if not z3.is_int_value(n):
        raise Unsupported("symbolic sequence in cross-check")
    return [engine_to_native(ip, SV(simp(e[i]), s.kind[1]), heap) for i in range(n.as_long())]


def _seq_items(s):
    e = simp(s.e)
    n = simp(z3.Length(e))
    if not z3.is_int_value(n):
        raise Unsupported("symbolic sequence in cross-check")
    out = []
    for i in range(n.as_long()):
        ok, v = concrete_of(SV(simp(e[i]), s.kind[1]))
        out.append(v)
    return True, out


# ------------------------------------------------------------------ CPython cross-check of the engine
def crosscheck(c, f, n, seed):
    """run the engine on concrete inputs and compare with the real function under CPython"""
    rng = random.Random(seed)
    node, _ = function_ast(f)
    params = [a.arg for a in node.args.posonlyargs + node.args.args]
    done = 0
    mismatches = []
    skipped = 0
    samples = []
    pre_post = native_clause(c.requires)[1] if c.requires is not None else None
    attempts = 0
    while done < n and attempts < n * 30:
        attempts += 1
        if c.samples is not None:
            nargs = c.samples(rng)
        else:
            nargs = {k: b.sample(rng) for k, b in c.sig.items()}
        try:
            if pre_post is not None:
                pv_ = {k: c.sig[k].native_copy(v) if k in c.sig else v for k, v in nargs.items()}
                for real_, alias_ in getattr(c, 'param_alias', {}).items():
                    pv_[alias_] = pv_[real_]
                ok = pre_post(pv_, [])
                ok = all(ok) if isinstance(ok, tuple) else bool(ok)
                if not ok:
                    continue
        except Exception:
            continue
        a_native = {k: (c.sig[k].native_copy(v) if k in c.sig else v) for k, v in nargs.items()}
        try:
            r = f(*[a_native[p] for p in params if p in a_native])
            if isinstance(r, types.GeneratorType):
                r = tuple(r)
            nat = ('ret', _norm_native(r), {k: _norm_native(v) for k, v in a_native.items() if not getattr(c.sig.get(k), 'shared', False)})
        except Exception as ex:
            nat = ('raise', type(ex).__name__, None)
        # engine, concrete
        x = Explorer(c.target)
        box = {}

        def run(st):
            ip = Interp(api.REG, st, None, top_unit=c.target)
            for k, v in c.options.items():
                st.ghost[k] = v
            st.ghost['no_invariants'] = True
            env = {k: c.sig[k].to_engine(ip, v) for k, v in nargs.items()}
            try:
                closure = {}
                if f.__closure__:
                    for nm, cell in zip(f.__code__.co_freevars, f.__closure__):
                        closure[nm] = cell.cell_contents
                ip.use_contracts = False
                r = ip.run_function(node, f.__globals__, c.target, [env[p] for p in params if p in env], {}, closure, f)
                box['r'] = ('ret', engine_to_native(ip, r), {k: engine_to_native(ip, v) for k, v in env.items() if not getattr(c.sig.get(k), 'shared', False)})
            except PyRaise as ex:
                box['r'] = ('raise', ex.cls.__name__, None)
        x.explore(run)
        if x.unsupported or 'r' not in box or x.paths != 1:
            skipped += 1
            if len(samples) < 3:
                samples.append({'skipped': (x.unsupported[:1] or ['paths=%d' % x.paths])[0].__repr__()[:200]})
            done += 1
            continue
        eng = box['r']
        done += 1
        if not _same_up_to_unmodelled_attributes(_canon(eng), _canon(nat)):
            mismatches.append({'inputs': repr({k: _norm_native(v) for k, v in nargs.items()})[:500], 'native': repr(nat)[:500], 'engine': repr(eng)[:500]})
        elif len(samples) < 3:
            samples.append({'inputs': repr({k: _norm_native(v) for k, v in nargs.items()})[:200], 'outcome': repr(nat[:2])[:200]})
    return {'evaluations': done, 'skipped_unsupported': skipped, 'mismatches': mismatches, 'samples': samples}


# ------------------------------------------------------------------ replay of a failed obligation
def replay_failed(c, f, ob):
    """run the real function on the native inputs concretised from the solver's model"""
    if ob.smt2 is None:
        return {'inputs': None, 'error': ob.need_model or 'no model available'}
    try:
        nargs = pickle.loads(ob.smt2)
        for name, b in c.sig.items():
            if isinstance(b, api.Const):
                nargs[name] = b.v
            elif getattr(b, 'no_pickle', False):
                nargs[name] = b.sample(random.Random(0))
    except Exception as ex:
        return {'inputs': None, 'error': 'cannot unpickle inputs: %r' % ex}
    shown = repr({k: _norm_native(v) for k, v in nargs.items() if not isinstance(c.sig.get(k), api.Const)})[:3000]
    try:
        chk = native_check(c, f, nargs)
    except Exception as ex:
        return {'inputs': shown, 'error': 'native run failed: %r' % ex, 'pickle': base64.b64encode(ob.smt2).decode()}
    return {'inputs': shown, 'native': chk, 'pickle': base64.b64encode(ob.smt2).decode()}


# ------------------------------------------------------------------ canaries (in-memory mutants)
def mutate_function(f, old, new, count=1):
    node, _ = function_ast(f)
    src = ast.unparse(node)
    if src.count(old) < 1:
        raise ValueError("canary pattern %r not found in %s" % (old, qualname_of(f)))
    src2 = src.replace(old, new, count)
    n2 = ast.parse(src2).body[0]
    return n2


# ------------------------------------------------------------------ top level
def verify_unit(c, mutate=None, do_cross=True, cross_n=40, seed=0, both=False, replay=True, cases=None):
    import hashlib
    res = UnitResult(c.target)
    t0 = time.time()
    try:
        f = target_function(c)
        node, fn = function_ast(f)
        res.src_hash = hashlib.sha1(ast.dump(node).encode()).hexdigest()[:12]
        x = Explorer(c.target, max_paths=c.options.get('max_paths', 4000), feas_timeout_ms=c.options.get('feas_timeout_ms', 3000))
        sink = []
        if c.cases is None:
            x.explore(make_runner(c, f, mutate, sink))
        else:
            allobs = {}
            for ci in (cases if cases is not None else range(len(c.cases))):
                x.unit = "%s[%s]" % (c.target, c.cases[ci][0])
                x.obligations = {}
                x.explore(make_runner(c, f, mutate, sink, case=ci))
                allobs.update(x.obligations)
            x.obligations = allobs
        res.paths = x.paths
        res.contracts_used = getattr(x, 'contracts_used', set())
        res.lemmas_used = getattr(x, 'lemmas_used', set())
        res.unsupported = [{'trace': [t for t in tr[-6:]], 'reason': r} for tr, r in x.unsupported]
        discharge_all(list(x.obligations.values()), both=both, stop_on_failure=mutate is not None)
        for ob in x.obligations.values():
            res.solver_secs += ob.secs
            d = {'id': ob.oid, 'clause': ob.clause, 'kind': ob.kind, 'label': ob.label, 'status': ob.status, 'backend': ob.backend,
                 'secs': round(ob.secs, 4), 'reason': ob.reason, 'trace': ["%s=%s" % (t[:60], d_) for t, d_ in ob.trace[-12:]]}
            if ob.status == 'failed':
                d['goal'] = str(ob.goal)[:400]
                if ob.model is not None:
                    d['model'] = ob.model
                if replay and mutate is None:
                    d['replay'] = replay_failed(c, f, ob)
                elif replay:
                    d['replay'] = replay_model_inputs(c, ob)
            res.obligations.append(d)
        res.feas = {'queries': x.feas_queries, 'secs': round(x.feas_secs, 3)}
        if do_cross and mutate is None:
            res.crosscheck = crosscheck(c, f, cross_n, seed)
    except z3.Z3Exception as ex:
        # an interrupted or resource-limited solver call inside the exploration: no verdict for this unit, not a checker defect
        res.unsupported.append({'trace': [], 'reason': 'solver call aborted during exploration: %s' % ex})
    except Exception as ex:
        res.error = "%s: %s\n%s" % (type(ex).__name__, ex, traceback.format_exc()[-1500:])
    res.secs = time.time() - t0
    return res


def replay_model_inputs(c, ob):
    if ob.smt2 is None:
        return {'inputs': None, 'error': ob.need_model or 'no model available'}
    try:
        nargs = pickle.loads(ob.smt2)
        return {'inputs': repr({k: _norm_native(v) for k, v in nargs.items()})[:3000]}
    except Exception as ex:
        return {'inputs': None, 'error': repr(ex)}


# ------------------------------------------------------------------ lemmas
def verify_lemma(lm, both=False):
    res = UnitResult("lemma:" + lm.name)
    t0 = time.time()
    try:
        x = Explorer(res.unit)
        node, _ = function_ast(lm.fn)

        def run(st):
            ip = Interp(api.REG, st, None, top_unit=None)
            for k, v in lm.options.items():
                st.ghost[k] = v
            env = {name: b.symbolic(ip, name) for name, b in lm.sig.items()}
            if lm.requires is not None:
                for cl in clauses(eval_cfn(ip, lm.requires, env)):
                    st.assume(ip.zbool(cl))
            m0 = None
            if lm.induct is not None:
                m0 = lift(eval_cfn(ip, lm.induct, env), 'int').e
            st.ghost['proving_lemma'] = (lm, m0)
            ctx = {'ip': ip, 'env': env, 'sig': lm.sig, 'old_heap': {}}
            goal = eval_cfn(ip, lm.fn, env)
            for i, cl in enumerate(clauses(goal)):
                st.oblige('lemma', "%s.%d" % (lm.name, i), ip.zbool(cl))
            for ob in st.x.obligations.values():
                if ob.ctx is None:
                    ob.ctx = ctx
            st.x.lemmas_used = getattr(st.x, 'lemmas_used', set()) | (st.ghost.get('lemmas_used', set()) - {lm.name})
        x.explore(run)
        res.paths = x.paths
        res.lemmas_used = getattr(x, 'lemmas_used', set())
        res.unsupported = [{'trace': tr[-6:], 'reason': r} for tr, r in x.unsupported]
        discharge_all(list(x.obligations.values()), both=both)
        for ob in x.obligations.values():
            res.solver_secs += ob.secs
            d = {'id': ob.oid, 'clause': ob.clause, 'kind': ob.kind, 'label': ob.label, 'status': ob.status, 'backend': ob.backend,
                 'secs': round(ob.secs, 4), 'reason': ob.reason, 'trace': []}
            if ob.status == 'failed':
                d['goal'] = str(ob.goal)[:400]
                d['model'] = ob.model
                try:
                    nargs = pickle.loads(ob.smt2)
                    nat = lm.fn(**nargs)
                    d['replay'] = {'inputs': repr(nargs), 'native': {'observation': 'lemma statement evaluates to %r natively' % (nat,),
                                                                     'violated': [] if (all(nat) if isinstance(nat, tuple) else nat) else ['lemma false natively']}}
                except Exception as ex:
                    d['replay'] = {'inputs': None, 'error': repr(ex)}
            res.obligations.append(d)
    except Exception as ex:
        res.error = "%s: %s\n%s" % (type(ex).__name__, ex, traceback.format_exc()[-1500:])
    res.secs = time.time() - t0
    return res


# ------------------------------------------------------------------ native sampling of a unit's contract (bounded stand-in)
def native_sampling(c, f, n, seed):
    """evaluate the unit's contract at run time on the real function over seeded samples of its builders"""
    rng = random.Random(seed * 7919 + 13)
    done = 0
    attempts = 0
    found = []
    distinct = set()
    while done < n and attempts < n * 20:
        attempts += 1
        try:
            nargs = c.samples(rng) if c.samples is not None else {k: b.sample(rng) for k, b in c.sig.items()}
            chk = native_check(c, f, nargs)
        except Exception as ex:
            continue
        if chk.get('pre') is not True:
            continue
        done += 1
        try:
            distinct.add(repr({k: _norm_native(v_) for k, v_ in nargs.items() if not isinstance(c.sig.get(k), api.Const)})[:400])
        except Exception:
            pass
        if chk['violated'] and len(found) < 5:
            try:
                import base64 as _b64
                pk_ = _b64.b64encode(pickle.dumps({k: v_ for k, v_ in nargs.items() if not getattr(c.sig.get(k), 'no_pickle', False)})).decode()
            except Exception:
                pk_ = None
            found.append({'clauses': chk['violated'], 'inputs': repr({k: _norm_native(v_) for k, v_ in nargs.items() if not isinstance(c.sig.get(k), api.Const)})[:2000],
                          'observation': chk['observation'], 'pickle': pk_})
    return {'evaluations': done, 'distinct': len(distinct), 'violations': found}
