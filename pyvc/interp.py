"""Symbolic interpreter for the Python subset (see DESIGN.md 2.3).

One deterministic execution per path; State.branch() forks by re-execution.
"""
import ast
import builtins
import inspect
import operator
import textwrap
import types
import z3

from .values import (SV, Loc, Unsupported, lift, kind_of, fresh, simp, concrete_of, has_sym,
                     sort_of, IntSeq, RecType, kind_name)
from .state import PathEnd, PyRaise

_BINOPS = {ast.Add: operator.add, ast.Sub: operator.sub, ast.Mult: operator.mul, ast.Mod: operator.mod,
           ast.FloorDiv: operator.floordiv, ast.BitAnd: operator.and_, ast.BitOr: operator.or_,
           ast.LShift: operator.lshift, ast.RShift: operator.rshift, ast.BitXor: operator.xor,
           ast.Pow: operator.pow, ast.Div: operator.truediv}
_CMPOPS = {ast.Eq: operator.eq, ast.NotEq: operator.ne, ast.Lt: operator.lt, ast.LtE: operator.le,
           ast.Gt: operator.gt, ast.GtE: operator.ge, ast.Is: operator.is_, ast.IsNot: operator.is_not}


class _Return(Exception):
    def __init__(self, value):
        self.value = value


class _Break(Exception):
    pass


class _Continue(Exception):
    pass


class Frame:
    def __init__(self, fn, env, globs, qual, node, closure=None):
        self.fn, self.env, self.globs, self.qual, self.node = fn, env, globs, qual, node
        self.closure = closure or {}
        self.yields = None
        self.entry = {}


class BoundMethod:
    """method of a heap object / symbolic value, or python function bound to an engine value"""

    def __init__(self, self_v, func, name=None):
        self.self_v, self.func, self.name = self_v, func, name or getattr(func, '__name__', '?')

    def __repr__(self):
        return "BoundMethod<%s>" % self.name


class CellMethod:
    """built-in method of a heap cell or symbolic value (list.append, bytes.startswith ...)"""

    def __init__(self, recv, name):
        self.recv, self.name = recv, name


class Closure:
    """a function/lambda defined inside interpreted code"""

    def __init__(self, node, frame, qual):
        self.node, self.frame, self.qual = node, frame, qual
        self.__name__ = getattr(node, 'name', '<lambda>')


_src_cache = {}


def function_ast(f):
    """(FunctionDef|Lambda node, source file) of a real function object, re-read from disk"""
    if not hasattr(f, '__code__'):
        # e.g. functools.lru_cache / partial objects: what callers run is not (only) the body in the source
        raise Unsupported("%s is not a plain function any more (%s): its source body is not what callers execute"
                          % (getattr(f, '__qualname__', getattr(f, '__name__', repr(f))), type(f).__name__))
    code = f.__code__
    key = (code.co_filename, code.co_firstlineno, code.co_name, code.co_code, code.co_names, code.co_varnames)
    if key in _src_cache:
        return _src_cache[key]
    fn = code.co_filename
    if fn not in _src_cache:
        with open(fn) as fh:
            src = fh.read()
        _src_cache[fn] = _mangle_private_names(ast.parse(src, fn))
    tree = _src_cache[fn]
    cands = []
    for n in ast.walk(tree):
        if isinstance(n, (ast.FunctionDef, ast.Lambda)):
            ln = n.lineno
            if isinstance(n, ast.FunctionDef) and n.decorator_list:
                ln = min(d.lineno for d in n.decorator_list)
            if isinstance(n, ast.FunctionDef) and (ln == code.co_firstlineno or n.lineno == code.co_firstlineno) and n.name == code.co_name:
                cands.append(n)
            elif isinstance(n, ast.Lambda) and n.lineno == code.co_firstlineno and code.co_name == '<lambda>':
                cands.append(n)
    if len(cands) > 1 and code.co_name == '<lambda>':
        # several lambdas on one line: match by argument names and compiled bytecode
        byname = [n for n in cands if tuple(a.arg for a in n.args.posonlyargs + n.args.args) == code.co_varnames[:code.co_argcount]]
        if len(byname) == 1:
            cands = byname
        else:
            best = []
            for n in byname:
                try:
                    c2 = compile(ast.Expression(n), fn, 'eval').co_consts[0]
                    if c2.co_code == code.co_code and c2.co_names == code.co_names:
                        best.append(n)
                except Exception:
                    pass
            if len(best) >= 1:
                cands = best[:1]
    if len(cands) != 1:
        raise Unsupported("cannot locate source of %s (%d candidates)" % (getattr(f, '__qualname__', f), len(cands)))
    _src_cache[key] = (cands[0], fn)
    return _src_cache[key]


def _mangle_private_names(tree):
    """Python's private-name mangling: inside a class body an identifier `__x` (not ending in two underscores) in an
    attribute reference or a name is compiled as `_Class__x`; strings (hasattr(self, "__x")) are not"""
    class M(ast.NodeTransformer):
        def __init__(self):
            self.cls = []

        def visit_ClassDef(self, n):
            self.cls.append(n.name.lstrip('_'))
            self.generic_visit(n)
            self.cls.pop()
            return n

        def _m(self, ident):
            if self.cls and self.cls[-1] and ident.startswith('__') and not ident.endswith('__'):
                return '_' + self.cls[-1] + ident
            return ident

        def visit_Attribute(self, n):
            self.generic_visit(n)
            n.attr = self._m(n.attr)
            return n

        def visit_Name(self, n):
            n.id = self._m(n.id)
            return n
    return M().visit(tree)


def qualname_of(f):
    return "%s:%s" % (getattr(f, '__module__', '?'), getattr(f, '__qualname__', getattr(f, '__name__', '?')))


class Interp:
    def __init__(self, registry, st, mutate=None, top_unit=None):
        self.reg = registry
        self.st = st
        self.frames = []
        self.mutate = mutate          # optional (qualname -> transformed FunctionDef) for canaries
        self.top_unit = top_unit
        self.depth = 0
        self.use_contracts = True
        from . import models
        self.models = models

    # ------------------------------------------------------------------ helpers
    def truth(self, v):
        """python truthiness as native bool or z3 Bool"""
        if isinstance(v, SV) and v.kind == ('abs', 'Pt'):
            return True      # a Point is a 2-tuple: always truthy
        if isinstance(v, SV):
            if v.kind == 'bool':
                return v.e
            if v.kind == 'int':
                return v.e != 0
            if v.kind in ('bytes', 'str') or v.kind[0] == 'seq':
                return z3.Length(v.e) > 0
            if v.kind[0] in ('rec', 'abs', 'tup'):
                return True
            raise Unsupported("truth of " + kind_name(v.kind))
        if isinstance(v, Loc):
            c = self.st.cell(v)
            k = c['k']
            if k == 'list':
                if 'seq' in c:
                    return z3.Length(c['seq'].e) > 0
                return len(c['items']) > 0
            if k == 'bytearray':
                return self.truth(c['data'])
            if k == 'dict':
                return len(c['d']) > 0
            if k == 'set':
                return len(c['items']) > 0
            if k == 'obj':
                cls = c['cls']
                if '_pt' in c['f']:
                    return True      # an abstract generator is a Point, i.e. a 2-tuple: always truthy
                if hasattr(cls, '__bool__') or hasattr(cls, '__len__'):
                    r = self.call_method(v, '__bool__' if hasattr(cls, '__bool__') else '__len__', [], {})
                    return self.truth(r)
                return True
            return True
        return bool(v)

    def truth_lit(self, v):
        """truth(v), with a test that simplifies to a literal (n <= 0 at n = 0) reported as a native bool: merge-mode
        evaluation then visits that branch only instead of building the other one's terms at meaningless arguments"""
        t = self.truth(v)
        if not isinstance(t, bool):
            ts = z3.simplify(t)
            if z3.is_true(ts):
                return True
            if z3.is_false(ts):
                return False
        return t

    def decide(self, v, label=""):
        t = self.truth(v)
        if isinstance(t, bool):
            return t
        return self.st.branch(t, label)

    def zbool(self, v):
        t = self.truth(v)
        return z3.BoolVal(t) if isinstance(t, bool) else t

    def raise_(self, cls, *args, note=""):
        if self.st.merge:
            raise Unsupported("raise in merge mode: %s %s" % (cls.__name__, note))
        raise PyRaise(cls, args, note)

    def seq_view(self, v):
        """view a value as an SV sequence if it is bytes-like / list-like symbolic; else None"""
        if isinstance(v, SV):
            return v
        if isinstance(v, Loc):
            c = self.st.cell(v)
            if c['k'] == 'bytearray':
                return c['data'] if isinstance(c['data'], SV) else lift(c['data'])
            if c['k'] == 'list' and 'seq' in c:
                return c['seq']
        return None

    def meta_items(self, v):
        """python list of element values if v is a meta-level (static length) sequence, else None"""
        if isinstance(v, (tuple, list)):
            return list(v)
        if isinstance(v, Loc):
            c = self.st.cell(v)
            if c['k'] in ('list', 'set') and 'items' in c:
                return list(c['items'])
            if c['k'] == 'dict':
                return list(c['d'].keys())
        if isinstance(v, (bytes, bytearray)):
            return list(v)
        if isinstance(v, (str, range, dict, set, frozenset)):
            return list(v)
        if isinstance(v, (types.GeneratorType, zip, enumerate, reversed, map, filter)):
            return list(v)
        if type(v).__name__ in ('dict_keys', 'dict_values', 'dict_items', 'list_iterator', 'list_reverseiterator'):
            return list(v)
        return None

    def new_list(self, items):
        return self.st.alloc({'k': 'list', 'items': list(items)})

    # ------------------------------------------------------------------ expressions
    def ev(self, n):
        m = getattr(self, 'ev_' + type(n).__name__, None)
        if m is None:
            raise Unsupported("expression " + type(n).__name__)
        return m(n)

    def ev_Constant(self, n):
        return n.value

    def ev_Name(self, n):
        fr = self.frames[-1]
        if n.id in fr.env:
            return fr.env[n.id]
        if n.id in fr.closure:
            c = fr.closure[n.id]
            return c() if callable(c) and getattr(c, '_cellthunk', False) else c
        if n.id in fr.globs:
            return fr.globs[n.id]
        if hasattr(builtins, n.id):
            return getattr(builtins, n.id)
        sp = self.models.SPECIAL_NAMES.get(n.id)
        if sp is not None:
            return sp
        self.raise_(NameError, n.id)

    def ev_Tuple(self, n):
        out = []
        for e in n.elts:
            if isinstance(e, ast.Starred):
                out.extend(self.iter_values(self.ev(e.value)))
            else:
                out.append(self.ev(e))
        return tuple(out)

    def ev_List(self, n):
        return self.new_list(self.ev_Tuple(n))

    def ev_Set(self, n):
        return self.st.alloc({'k': 'set', 'items': list(self.ev_Tuple(n))})

    def ev_Dict(self, n):
        d = {}
        for k, v in zip(n.keys, n.values):
            kk = self.ev(k)
            if has_sym(kk):
                raise Unsupported("dict literal with symbolic key")
            d[kk] = self.ev(v)
        return self.st.alloc({'k': 'dict', 'd': d})

    def ev_JoinedStr(self, n):
        parts = []
        for v in n.values:
            if isinstance(v, ast.Constant):
                parts.append(v.value)
            else:
                x = self.ev(v.value)
                if has_sym(x):
                    raise Unsupported("f-string with symbolic value")
                parts.append(format(x, self.ev(v.format_spec) if v.format_spec else ""))
        return "".join(parts)

    def ev_UnaryOp(self, n):
        v = self.ev(n.operand)
        if isinstance(n.op, ast.Not):
            t = self.truth(v)
            return (not t) if isinstance(t, bool) else SV(simp(z3.Not(t)), 'bool')
        from . import group as G_
        if isinstance(n.op, ast.USub) and G_.pt_of(self, v) is not None:
            return G_.pneg(self, G_.pt_of(self, v))
        if isinstance(v, Loc):
            return self.call_method(v, {ast.USub: '__neg__', ast.Invert: '__invert__', ast.UAdd: '__pos__'}[type(n.op)], [], {})
        if not isinstance(v, SV):
            return {ast.USub: operator.neg, ast.Invert: operator.invert, ast.UAdd: operator.pos}[type(n.op)](v)
        v = lift(v, 'int') if v.kind == 'bool' else v
        if v.kind != 'int':
            raise Unsupported("unary on " + kind_name(v.kind))
        if isinstance(n.op, ast.USub):
            return SV(-v.e, 'int')
        if isinstance(n.op, ast.Invert):
            return SV(-v.e - 1, 'int')
        return v

    def ev_BoolOp(self, n):
        is_and = isinstance(n.op, ast.And)
        if self.st.merge:
            # value semantics via If-chains; operands after a concretely deciding one are not evaluated (short circuit)
            vals = []
            for x in n.values:
                v = self.ev(x)
                vals.append(v)
                t = self.truth(v)
                if isinstance(t, bool) and (t != is_and):
                    break
            res = vals[-1]
            for v in reversed(vals[:-1]):
                t = self.truth(v)
                if isinstance(t, bool):
                    res = (res if t else v) if is_and else (v if t else res)
                else:
                    res = self.models.ite(self, t, res, v) if is_and else self.models.ite(self, t, v, res)
            return res
        v = None
        for i, x in enumerate(n.values):
            v = self.ev(x)
            if i == len(n.values) - 1:
                return v
            d = self.decide(v, ast.unparse(x))
            if is_and and not d:
                return v
            if (not is_and) and d:
                return v
        return v

    def ev_IfExp(self, n):
        c = self.ev(n.test)
        if self.st.merge:
            t = self.truth_lit(c)
            if isinstance(t, bool):
                return self.ev(n.body if t else n.orelse)
            return self.models.ite(self, t, self.ev(n.body), self.ev(n.orelse))
        if self.decide(c, ast.unparse(n.test)):
            return self.ev(n.body)
        return self.ev(n.orelse)

    def ev_BinOp(self, n):
        a = self.ev(n.left)
        b = self.ev(n.right)
        return self.binop(type(n.op), a, b)

    def binop(self, op, a, b):
        if isinstance(a, (self.models.HexText, self.models.HexOfBytes)) or isinstance(b, (self.models.HexText, self.models.HexOfBytes)):
            return self.models.binop(self, op, a, b)
        if not has_sym(a) and not has_sym(b):
            if isinstance(a, Closure) or isinstance(b, Closure):
                raise Unsupported("binop on closure")
            try:
                return _BINOPS[op](a, b)
            except ZeroDivisionError:
                self.raise_(ZeroDivisionError)
            except TypeError as ex:
                self.raise_(TypeError, str(ex))
        return self.models.binop(self, op, a, b)

    def ev_Compare(self, n):
        left = self.ev(n.left)
        if len(n.ops) == 1:
            return self.compare(type(n.ops[0]), left, self.ev(n.comparators[0]))
        res = None
        for op, c in zip(n.ops, n.comparators):
            right = self.ev(c)
            r = self.compare(type(op), left, right)
            if res is None:
                res = r
            else:
                t1, t2 = self.truth(res), self.truth(r)
                if isinstance(t1, bool) and isinstance(t2, bool):
                    res = t1 and t2
                else:
                    res = SV(simp(z3.And(self.zbool(res), self.zbool(r))), 'bool')
            left = right
        return res

    def compare(self, op, a, b):
        if op in (ast.In, ast.NotIn):
            r = self.models.contains(self, b, a)
            if op is ast.NotIn:
                return (not r) if isinstance(r, bool) else SV(simp(z3.Not(r.e)), 'bool')
            return r
        if not has_sym(a) and not has_sym(b):
            try:
                return _CMPOPS[op](a, b)
            except TypeError as ex:
                self.raise_(TypeError, str(ex))
        return self.models.compare(self, op, a, b)

    def ev_Attribute(self, n):
        v = self.ev(n.value)
        return self.getattr(v, n.attr)

    def getattr(self, v, name):
        if isinstance(v, Loc):
            c = self.st.cell(v)
            if c['k'] == 'obj':
                if name in c['f']:
                    return c['f'][name]
                if name == '__class__':
                    return c['cls']
                return self.class_attr(v, c['cls'], name)
            if c['k'] in ('hasher', 'hmac') and name == 'digest_size':
                from .builtins_model import _HASH_LEN
                return _HASH_LEN[c['alg']]
            return CellMethod(v, name)
        if isinstance(v, SV):
            if v.kind[0] == 'rec':
                rt = v.kind[1]
                if name in rt.fields:
                    r = SV(simp(rt.acc[name](v.e)), rt.fields[name])
                    self.models.typing_facts(self, r)
                    return r
                return self.class_attr(v, rt.cls, name)
            if v.kind == 'int' and name == 'to_bytes':
                return BoundMethod(v, self.models.int_to_bytes_fn, name)
            if v.kind == 'int' and name == 'bit_length':
                uv = self.st.unique_value(v.e, force=True) if not self.st.merge else None
                if uv is None:
                    raise Unsupported("bit_length of a symbolic int")
                return uv.bit_length
            return CellMethod(v, name)
        if isinstance(v, self.models.HexText) and name == 'encode':
            return lambda *a, **k: self.models.HexText(v.v, v.pad, True)
        if isinstance(v, Closure):
            raise Unsupported("attribute of closure")
        sp = self.models.native_attr(self, v, name)
        if sp is not NotImplemented:
            return sp
        try:
            return getattr(v, name)
        except AttributeError as ex:
            self.raise_(AttributeError, str(ex))

    def class_attr(self, self_v, cls, name):
        try:
            raw = inspect.getattr_static(cls, name)
        except AttributeError:
            self.raise_(AttributeError, "%s has no attribute %s" % (cls.__name__, name))
        if isinstance(raw, types.FunctionType):
            return BoundMethod(self_v, raw, name)
        if isinstance(raw, classmethod):
            return getattr(cls, name)
        if isinstance(raw, staticmethod):
            return raw.__func__
        if isinstance(raw, property):
            return self.call_function(raw.fget, [self_v], {})
        return raw

    def ev_Subscript(self, n):
        v = self.ev(n.value)
        if isinstance(n.slice, ast.Slice):
            lo = None if n.slice.lower is None else self.ev(n.slice.lower)
            hi = None if n.slice.upper is None else self.ev(n.slice.upper)
            step = None if n.slice.step is None else self.ev(n.slice.step)
            return self.models.slice_(self, v, lo, hi, step)
        i = self.ev(n.slice)
        return self.models.index(self, v, i)

    def ev_Starred(self, n):
        raise Unsupported("starred outside call/tuple")

    def ev_Lambda(self, n):
        return Closure(n, self.frames[-1], self.frames[-1].qual + ".<lambda>")

    def ev_ListComp(self, n):
        if len(n.generators) == 1 and not self.st.merge:
            g0 = n.generators[0]
            itv = self.ev(g0.iter)
            if isinstance(n.elt, ast.Name) and isinstance(g0.target, ast.Name) and n.elt.id == g0.target.id and not g0.ifs \
                    and isinstance(itv, SV) and itv.kind == 'bytes':
                return self.models.lookup_builtin(list)(self, [itv], {})      # [x for x in data] is list(data)
            if self.meta_items(itv) is None and self.reg.invariant_for(self.frames[-1].qual, 'comp%d' % self._comp_ordinal(n)) is not None:
                return self._symbolic_comprehension(n, 'list')
        out = []
        self._comp(n.generators, 0, lambda: out.append(self.ev(n.elt)))
        return self.new_list(out)

    def ev_GeneratorExp(self, n):
        out = []
        self._comp(n.generators, 0, lambda: out.append(self.ev(n.elt)))
        return tuple(out)

    def ev_SetComp(self, n):
        out = []
        self._comp(n.generators, 0, lambda: out.append(self.ev(n.elt)))
        return self.st.alloc({'k': 'set', 'items': self.models.dedupe(self, out)})

    def ev_DictComp(self, n):
        d = {}

        def add():
            k = self.ev(n.key)
            if has_sym(k):
                raise Unsupported("dict comprehension with symbolic key")
            d[k] = self.ev(n.value)
        self._comp(n.generators, 0, add)
        return self.st.alloc({'k': 'dict', 'd': d})

    def _comp(self, gens, k, emit):
        if k == len(gens):
            emit()
            return
        g = gens[k]
        it = self.ev(g.iter)
        items = self.meta_items(it)
        if items is None:
            items = self.models.iter_symbolic_unrolled(self, it)
        env = self.frames[-1].env
        for x in items:
            self.assign(g.target, x)
            ok = True
            for cond in g.ifs:
                if not self.decide(self.ev(cond), ast.unparse(cond)):
                    ok = False
                    break
            if ok:
                self._comp(gens, k + 1, emit)

    def iter_values(self, it):
        items = self.meta_items(it)
        if items is None:
            items = self.models.iter_symbolic_unrolled(self, it)
        return items

    # ------------------------------------------------------------------ calls
    def _comp_ordinal(self, node):
        """ordinal of a comprehension / generator expression among those of the current function (source order)"""
        fr = self.frames[-1]
        k = 0
        for x in ast.walk(fr.node):
            if isinstance(x, (ast.GeneratorExp, ast.ListComp)):
                if x is node:
                    return k
                k += 1
        return -1

    def _symbolic_comprehension(self, n, mode):
        """any / all / sum / list over a comprehension whose iterable has symbolic length: desugared into the loop
        `_r = init; for target in it: [if conds:] step` and run with the sidecar invariant registered for ('comp', k)"""
        if len(n.generators) != 1:
            raise Unsupported("nested comprehension over a symbolic collection")
        g = n.generators[0]
        fr = self.frames[-1]
        key = 'comp%d' % self._comp_ordinal(n)
        R = ast.Name(id='_r', ctx=ast.Load())
        Rs = ast.Name(id='_r', ctx=ast.Store())
        if mode == 'any':
            init, step = False, [ast.If(test=n.elt, body=[ast.Assign(targets=[Rs], value=ast.Constant(True)), ast.Break()], orelse=[])]
        elif mode == 'all':
            init, step = True, [ast.If(test=ast.UnaryOp(op=ast.Not(), operand=n.elt), body=[ast.Assign(targets=[Rs], value=ast.Constant(False)), ast.Break()], orelse=[])]
        elif mode == 'sum':
            init, step = 0, [ast.AugAssign(target=Rs, op=ast.Add(), value=n.elt)]
        else:
            init = self.new_list([])
            step = [ast.Expr(ast.Call(func=ast.Attribute(value=R, attr='append', ctx=ast.Load()), args=[n.elt], keywords=[]))]
        for cond in reversed(g.ifs):
            step = [ast.If(test=cond, body=step, orelse=[])]
        loop = ast.For(target=g.target, iter=ast.Name(id='__comp_iter', ctx=ast.Load()), body=step, orelse=[])
        ast.fix_missing_locations(ast.Module(body=[loop], type_ignores=[]))
        loop._pyvc_key = key
        saved = {k_: fr.env[k_] for k_ in ('_r', '__comp_iter') if k_ in fr.env}
        fr.env['_r'] = init
        fr.env['__comp_iter'] = self.ev(g.iter)
        try:
            self.models.run_loop(self, loop)
            return fr.env['_r']
        finally:
            for k_ in ('_r', '__comp_iter'):
                fr.env.pop(k_, None)
            fr.env.update(saved)

    def ev_Call(self, n):
        if isinstance(n.func, ast.Name) and n.func.id in ('any', 'all', 'sum') and len(n.args) == 1 and isinstance(n.args[0], ast.GeneratorExp) \
                and not self.st.merge and n.func.id not in self.frames[-1].env:
            g0 = n.args[0].generators[0]
            itv = self.ev(g0.iter)
            if self.meta_items(itv) is None:
                return self._symbolic_comprehension(n.args[0], n.func.id)
        f = self.ev(n.func)
        args = []
        for a in n.args:
            if isinstance(a, ast.Starred):
                args.extend(self.iter_values(self.ev(a.value)))
            else:
                args.append(self.ev(a))
        kw = {}
        for k in n.keywords:
            if k.arg is None:
                d = self.ev(k.value)
                if isinstance(d, Loc) and self.st.cell(d)['k'] == 'dict':
                    kw.update(self.st.cell(d)['d'])
                elif isinstance(d, dict):
                    kw.update(d)
                else:
                    raise Unsupported("**kwargs of non-dict")
            else:
                kw[k.arg] = self.ev(k.value)
        # special forms that need the AST
        if f is self.models.OLD:
            return self.models.eval_old(self, n)
        return self.call(f, args, kw, n)

    def call(self, f, args, kw, node=None):
        self.depth += 1
        if self.depth > 60:
            self.depth -= 1
            raise Unsupported("interpreter call depth")
        try:
            return self._call(f, args, kw, node)
        finally:
            self.depth -= 1

    def _call(self, f, args, kw, node):
        M = self.models
        if isinstance(f, CellMethod):
            return M.cell_method(self, f.recv, f.name, args, kw)
        if isinstance(f, BoundMethod):
            if f.func is M.int_to_bytes_fn:
                return M.int_to_bytes_model(self, [f.self_v] + list(args), kw)
            return self.call_function(f.func, [f.self_v] + list(args), kw)
        if isinstance(f, Closure):
            return self.call_closure(f, args, kw)
        h = M.lookup_builtin(f)
        if h is not None:
            return h(self, args, kw)
        if isinstance(f, types.MethodType):
            fn, selfv = f.__func__, f.__self__
            h = M.lookup_builtin(fn)
            if h is not None:
                return h(self, [selfv] + list(args), kw)
            return self.call_function(fn, [selfv] + list(args), kw)
        if isinstance(f, types.FunctionType):
            return self.call_function(f, args, kw)
        if isinstance(f, type):
            return self.construct(f, args, kw)
        if isinstance(f, (types.BuiltinFunctionType, types.BuiltinMethodType, types.MethodDescriptorType, types.WrapperDescriptorType, types.MethodWrapperType)) \
                or type(f).__name__ in ('method-wrapper', 'builtin_function_or_method', 'method_descriptor'):
            if not has_sym(args) and not has_sym(tuple(kw.values())):
                return M.native_call(self, f, args, kw)
            recv = getattr(f, '__self__', None)
            if isinstance(recv, str) and f.__name__ == 'format':
                return M.SymText()      # message text with symbolic parts: opaque
            if isinstance(recv, (bytes, str)) and not isinstance(recv, type):
                return M.cell_method(self, lift(recv), f.__name__, args, kw)
            if type(recv) is dict and f.__name__ == 'get':
                return M.native_dict_get(self, recv, args[0], args[1] if len(args) > 1 else None)
            if isinstance(recv, int) and f.__name__ == 'to_bytes':
                return M.int_to_bytes_model(self, [recv] + list(args), kw)
            raise Unsupported("native %r with symbolic arguments" % (getattr(f, '__name__', f),))
        if callable(f) and not has_sym(args) and hasattr(type(f), '__call__') and isinstance(type(f).__call__, types.FunctionType):
            return self.call_function(type(f).__call__, [f] + list(args), kw)
        raise Unsupported("call of %r" % (f,))

    def call_method(self, recv, name, args, kw):
        return self.call(self.getattr(recv, name), args, kw)

    def construct(self, cls, args, kw):
        M = self.models
        if issubclass(cls, BaseException):
            return M.ExcValue(cls, args)
        if issubclass(cls, bytes) and cls is not bytes and len(args) == 1 and isinstance(args[0], SV) and args[0].kind == 'bytes':
            return args[0]     # bytes subclasses that only override __str__/__repr__ (bytes_as_revhex)
        if cls in RecType.registry and self.reg.rec_construct.get(cls):
            return self.reg.rec_construct[cls](self, args, kw)
        if not has_sym(args) and not has_sym(tuple(kw.values())) and M.native_constructible(cls):
            return M.native_call(self, cls, args, kw)
        if getattr(cls, '__module__', '') == 'builtins' or cls.__module__ in ('io', 'collections', 'decimal'):
            raise Unsupported("constructor %s with symbolic args" % cls.__name__)
        # user class: allocate, run __new__ default + __init__
        new = inspect.getattr_static(cls, '__new__')
        if new is not object.__new__ and not isinstance(new, type(object.__new__)):
            newf = new.__func__ if isinstance(new, staticmethod) else new
            obj = self.call_function(newf, [cls] + list(args), kw, new_call=True)
            if not (isinstance(obj, Loc) and self.st.cell(obj)['k'] == 'obj' and issubclass(self.st.cell(obj)['cls'], cls)):
                return obj
        else:
            obj = self.st.alloc({'k': 'obj', 'cls': cls, 'f': {}})
        init = inspect.getattr_static(cls, '__init__')
        if isinstance(init, types.FunctionType):
            self.call_function(init, [obj] + list(args), kw)
        elif args or kw:
            self.raise_(TypeError, "%s() takes no arguments" % cls.__name__)
        return obj

    def call_function(self, f, args, kw, new_call=False):
        qn = qualname_of(f)
        # spec functions
        sp = self.reg.specs.get(f)
        if sp is not None:
            return self.models.call_spec(self, sp, args, kw)
        lm = getattr(f, '_lemma', None)
        if lm is not None:
            if self.st.ghost.get('lemma_stmt_only') and not (len(self.frames) == 0):
                return True      # nested proof hints inside a lemma body are not part of its statement
            from .modular import call_lemma
            return call_lemma(self, lm, args, kw)
        # contracts (modular), unless this is the unit under verification at the top of the stack
        if self.use_contracts and not self.st.merge:
            c = self.reg.contract_for(f, bool(self.st.ghost.get('table_contracts')))
            if c is not None and not (len(self.frames) == 0 and qn == self.top_unit):
                if not c.inline:
                    return self.models.apply_contract(self, c, f, args, kw)
        if not f.__code__.co_filename.startswith(self.reg.allowed_roots):
            if not has_sym(args) and not has_sym(tuple(kw.values())):
                return self.models.native_call(self, f, args, kw)
            raise Unsupported("function outside /repo with symbolic args: " + qn)
        code = f.__code__
        if code.co_filename == '<string>' and code.co_names == () and code.co_consts == (None,) and len(code.co_code) <= 8:
            return None       # functions made by exec("def f(s): pass")
        node, fn = function_ast(f)
        if self.mutate and qn in self.mutate:
            node = self.mutate[qn]
        closure = {}
        if f.__closure__:
            for name, cell in zip(f.__code__.co_freevars, f.__closure__):
                try:
                    closure[name] = cell.cell_contents
                except ValueError:
                    pass
        return self.run_function(node, f.__globals__, qn, args, kw, closure, f)

    def call_closure(self, c, args, kw):
        closure = dict(c.frame.closure)
        fr = c.frame
        env = fr.env
        # late-binding view of the enclosing frame's locals
        closure_view = _EnvView(env, closure)
        return self.run_function(c.node, fr.globs, c.qual, args, kw, closure_view, None)

    def bind_args(self, node, args, kw, qual, fobj=None):
        a = node.args
        params = [x.arg for x in a.posonlyargs + a.args]
        env = {}
        args = list(args)
        if len(args) > len(params) and a.vararg is None:
            self.raise_(TypeError, "%s: too many positional arguments" % qual)
        for name, v in zip(params, args):
            env[name] = v
        extra = args[len(params):]
        if a.vararg is not None:
            env[a.vararg.arg] = tuple(extra)
        kw = dict(kw)
        for name in params[len(args):]:
            if name in kw:
                env[name] = kw.pop(name)
        ndef = len(a.defaults)
        real_defaults = getattr(fobj, '__defaults__', None) if fobj is not None else None
        if real_defaults is not None and len(real_defaults) != ndef:
            real_defaults = None
        for j, (name, d) in enumerate(zip(params[len(params) - ndef:], a.defaults)):
            if name not in env:
                # defaults were evaluated when the function was defined: take the real objects
                env[name] = real_defaults[j] if real_defaults is not None else self.ev_default(d)
        real_kw = (getattr(fobj, '__kwdefaults__', None) or {}) if fobj is not None else {}
        for x, d in zip(a.kwonlyargs, a.kw_defaults):
            if x.arg in kw:
                env[x.arg] = kw.pop(x.arg)
            elif x.arg in real_kw:
                env[x.arg] = real_kw[x.arg]
            elif d is not None:
                env[x.arg] = self.ev_default(d)
            else:
                self.raise_(TypeError, "%s: missing keyword-only %s" % (qual, x.arg))
        if a.kwarg is not None:
            env[a.kwarg.arg] = self.st.alloc({'k': 'dict', 'd': kw})
            kw = {}
        if kw:
            for k in kw:
                if k in env:
                    self.raise_(TypeError, "%s: multiple values for %s" % (qual, k))
            self.raise_(TypeError, "%s: unexpected keyword %s" % (qual, list(kw)))
        for name in params:
            if name not in env:
                self.raise_(TypeError, "%s: missing argument %s" % (qual, name))
        return env

    def ev_default(self, d):
        # defaults are evaluated in the defining scope; the units only use literals, names and attributes
        return self.ev(d)

    def run_function(self, node, globs, qual, args, kw, closure, fobj):
        if self.st.merge and not self.st.ghost.get('pc_aware'):
            try:
                return self._run_function(node, globs, qual, args, kw, closure, fobj)
            except Unsupported as ex:
                if 'merge' not in str(ex):
                    raise
            # results of different shape per case: let the path condition pick the branches (see modular._merge_if)
            self.st.ghost['pc_aware'] = True
            try:
                return self._run_function(node, globs, qual, args, kw, closure, fobj)
            finally:
                self.st.ghost['pc_aware'] = False
        return self._run_function(node, globs, qual, args, kw, closure, fobj)

    def _run_function(self, node, globs, qual, args, kw, closure, fobj):
        fr = Frame(fobj, {}, globs, qual, node, closure)
        self.frames.append(fr)
        try:
            fr.env.update(self.bind_args(node, args, kw, qual, fobj))
            fr.entry = dict(fr.env)
            fr.entry_heap = getattr(self, 'old_heap', None)
            if isinstance(node, ast.Lambda):
                return self.ev(node.body)
            is_gen = any(isinstance(x, (ast.Yield, ast.YieldFrom)) for x in _walk_fn(node))
            if is_gen:
                # the values yielded so far live in a list cell named _yields (so loop invariants can speak about them)
                fr.yields = self.new_list([])
                fr.env['_yields'] = fr.yields
            try:
                self.run_block(node.body)
            except _Return as r:
                if is_gen:
                    return self._yielded(fr)
                return self.models.finish_pending(self, fr, r.value)
            if is_gen:
                return self._yielded(fr)
            return self.models.finish_pending(self, fr, None)
        finally:
            self.frames.pop()

    def _yielded(self, fr):
        c = self.st.cell(fr.yields)
        return tuple(c['items']) if 'items' in c else c['seq']

    def ev_Yield(self, n):
        fr = self.frames[-1]
        self.models.cell_method(self, fr.yields, 'append', [None if n.value is None else self.ev(n.value)], {})
        return None

    def ev_YieldFrom(self, n):
        fr = self.frames[-1]
        self.models.cell_method(self, fr.yields, 'extend', [self.ev(n.value)], {})
        return None

    # ------------------------------------------------------------------ statements
    def run_block(self, stmts):
        for s in stmts:
            m = getattr(self, 'st_' + type(s).__name__, None)
            if m is None:
                raise Unsupported("statement " + type(s).__name__)
            m(s)
            hook = getattr(self, 'cut_hook', None)
            if hook is not None and len(self.frames) == 1 and not self.st.merge:
                hook(self.frames[-1], s)

    def st_Expr(self, s):
        if isinstance(s.value, ast.Constant):
            return
        self.ev(s.value)

    def st_Pass(self, s):
        pass

    def st_Import(self, s):
        import importlib
        for a in s.names:
            mod = importlib.import_module(a.name)
            if a.asname:
                self.frames[-1].env[a.asname] = mod
            else:
                self.frames[-1].env[a.name.split('.')[0]] = importlib.import_module(a.name.split('.')[0])

    def st_ImportFrom(self, s):
        import importlib
        pkg = self.frames[-1].globs.get('__package__')
        modname = ("." * s.level) + (s.module or "")
        try:
            mod = importlib.import_module(modname, pkg)
        except ImportError as ex:
            self.raise_(ImportError, str(ex))
        for a in s.names:
            try:
                v = getattr(mod, a.name)
            except AttributeError:
                try:
                    v = importlib.import_module(modname + "." + a.name, pkg)
                except ImportError as ex:
                    self.raise_(ImportError, str(ex))
            self.frames[-1].env[a.asname or a.name] = v

    def st_Global(self, s):
        raise Unsupported("global statement")

    def st_Nonlocal(self, s):
        raise Unsupported("nonlocal statement")

    def st_FunctionDef(self, s):
        fr = self.frames[-1]
        fr.env[s.name] = Closure(s, fr, fr.qual + ".<locals>." + s.name)

    def st_Return(self, s):
        v = None if s.value is None else self.ev(s.value)
        hook = getattr(self, 'at_return_hook', None)
        if hook is not None and len(self.frames) == 1 and not self.st.merge:
            hook(self.frames[-1], v)
        raise _Return(v)

    def st_Break(self, s):
        raise _Break()

    def st_Continue(self, s):
        raise _Continue()

    def st_Assert(self, s):
        if not self.decide(self.ev(s.test), "assert " + ast.unparse(s.test)):
            self.raise_(AssertionError, ast.unparse(s.test))

    def st_Delete(self, s):
        for t in s.targets:
            if isinstance(t, ast.Name):
                del self.frames[-1].env[t.id]
            elif isinstance(t, ast.Subscript):
                base = self.ev(t.value)
                if isinstance(t.slice, ast.Slice):
                    lo = None if t.slice.lower is None else self.ev(t.slice.lower)
                    hi = None if t.slice.upper is None else self.ev(t.slice.upper)
                    self.models.del_slice(self, base, lo, hi)
                else:
                    self.models.del_item(self, base, self.ev(t.slice))
            else:
                raise Unsupported("del target")

    def st_Assign(self, s):
        v = self.ev(s.value)
        for t in s.targets:
            self.assign(t, v)

    def st_AnnAssign(self, s):
        if s.value is not None:
            self.assign(s.target, self.ev(s.value))

    def st_AugAssign(self, s):
        t = s.target
        if isinstance(t, ast.Name):
            cur = self.ev(ast.Name(id=t.id, ctx=ast.Load()))
            if isinstance(cur, Loc) and isinstance(s.op, ast.Add):
                self.models.inplace_add(self, cur, self.ev(s.value))
                return
            self.frames[-1].env[t.id] = self.binop(type(s.op), cur, self.ev(s.value))
        elif isinstance(t, ast.Attribute):
            base = self.ev(t.value)
            cur = self.getattr(base, t.attr)
            if isinstance(cur, Loc) and isinstance(s.op, ast.Add):
                self.models.inplace_add(self, cur, self.ev(s.value))
                return
            self.setattr(base, t.attr, self.binop(type(s.op), cur, self.ev(s.value)))
        elif isinstance(t, ast.Subscript):
            base = self.ev(t.value)
            i = self.ev(t.slice)
            cur = self.models.index(self, base, i)
            self.models.set_item(self, base, i, self.binop(type(s.op), cur, self.ev(s.value)))
        else:
            raise Unsupported("augassign target")

    def assign(self, t, v):
        if isinstance(t, ast.Name):
            self.frames[-1].env[t.id] = v
        elif isinstance(t, (ast.Tuple, ast.List)):
            items = self.meta_items(v)
            if items is None:
                items = self.models.unpack_symbolic(self, v, len(t.elts))
            star = [i for i, e in enumerate(t.elts) if isinstance(e, ast.Starred)]
            if star:
                k = star[0]
                after = len(t.elts) - k - 1
                if len(items) < len(t.elts) - 1:
                    self.raise_(ValueError, "not enough values to unpack")
                for e, x in zip(t.elts[:k], items[:k]):
                    self.assign(e, x)
                self.assign(t.elts[k].value, self.new_list(items[k:len(items) - after]))
                for e, x in zip(t.elts[k + 1:], items[len(items) - after:]):
                    self.assign(e, x)
                return
            if len(items) != len(t.elts):
                self.raise_(ValueError, "unpack: expected %d values, got %d" % (len(t.elts), len(items)))
            for e, x in zip(t.elts, items):
                self.assign(e, x)
        elif isinstance(t, ast.Attribute):
            self.setattr(self.ev(t.value), t.attr, v)
        elif isinstance(t, ast.Subscript):
            base = self.ev(t.value)
            if isinstance(t.slice, ast.Slice):
                lo = None if t.slice.lower is None else self.ev(t.slice.lower)
                hi = None if t.slice.upper is None else self.ev(t.slice.upper)
                self.models.set_slice(self, base, lo, hi, v)
            else:
                self.models.set_item(self, base, self.ev(t.slice), v)
        else:
            raise Unsupported("assignment target " + type(t).__name__)

    def setattr(self, base, name, v):
        if isinstance(base, Loc) and self.st.cell(base)['k'] == 'obj':
            c = self.st.cell(base)
            raw = None
            try:
                raw = inspect.getattr_static(c['cls'], name)
            except AttributeError:
                pass
            if isinstance(raw, property):
                if raw.fset is None:
                    self.raise_(AttributeError, "can't set attribute " + name)
                self.call_function(raw.fset, [base, v], {})
                return
            c['f'] = dict(c['f'])
            c['f'][name] = v
            return
        raise Unsupported("attribute store on %r" % (base,))

    def st_If(self, s):
        c = self.ev(s.test)
        if self.st.merge:
            return self.models.merge_if(self, s, c)
        if self.decide(c, ast.unparse(s.test)):
            self.run_block(s.body)
        else:
            self.run_block(s.orelse)

    def st_Raise(self, s):
        if s.exc is None:
            fr = self.frames[-1]
            cur = fr.env.get('__active_exc__')
            if cur is None:
                raise Unsupported("bare raise outside handler")
            raise cur
        v = self.ev(s.exc)
        M = self.models
        if isinstance(v, M.ExcValue):
            raise PyRaise(v.cls, v.args) if not self.st.merge else Unsupported("raise in merge mode")
        if isinstance(v, type) and issubclass(v, BaseException):
            self.raise_(v)
        if isinstance(v, BaseException):
            self.raise_(type(v), *v.args)
        raise Unsupported("raise of %r" % (v,))

    def st_Try(self, s):
        try:
            try:
                self.run_block(s.body)
            except PyRaise as ex:
                handled = False
                for h in s.handlers:
                    if h.type is None:
                        match = True
                    else:
                        t = self.ev(h.type)
                        ts = t if isinstance(t, tuple) else (t,)
                        match = any(isinstance(x, type) and issubclass(ex.cls, x) for x in ts)
                    if match:
                        handled = True
                        env = self.frames[-1].env
                        if h.name:
                            env[h.name] = self.models.ExcValue(ex.cls, ex.eargs)
                        saved = env.get('__active_exc__')
                        env['__active_exc__'] = ex
                        try:
                            self.run_block(h.body)
                        finally:
                            env['__active_exc__'] = saved
                        break
                if not handled:
                    raise
            else:
                self.run_block(s.orelse)
        finally:
            if s.finalbody:
                self.run_block(s.finalbody)

    def st_With(self, s):
        raise Unsupported("with statement")

    def st_While(self, s):
        self.models.run_loop(self, s)

    def st_For(self, s):
        self.models.run_loop(self, s)


class _EnvView(dict):
    """closure lookup: enclosing frame's live locals first, then its own closure"""

    def __init__(self, env, outer):
        dict.__init__(self)
        self.env, self.outer = env, outer

    def __contains__(self, k):
        return k in self.env or k in self.outer

    def __getitem__(self, k):
        if k in self.env:
            return self.env[k]
        return self.outer[k]


def _walk_fn(node):
    """walk a function body without descending into nested functions/lambdas"""
    stack = list(node.body) if not isinstance(node, ast.Lambda) else [node.body]
    while stack:
        n = stack.pop()
        yield n
        for c in ast.iter_child_nodes(n):
            if isinstance(c, (ast.FunctionDef, ast.Lambda, ast.ClassDef)):
                continue
            stack.append(c)
