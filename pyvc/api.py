"""Contract language: registry, decorators, argument builders.

Contract files are ordinary Python modules under /verif/contracts.  Their
requires/ensures/invariant functions are *interpreted symbolically* by the engine
(merge mode) and *executed natively* by replay / Tier B.  The helper functions
below therefore all have a native meaning too.
"""
import io
import random
import z3

from .values import SV, Loc, Unsupported, lift, fresh, simp, sort_of, kind_name, RecType, concrete_of, IntSeq

import os as _os
REPO_ROOT = _os.path.realpath(_os.environ.get('PYVC_REPO', '/repo')) + '/'
_HERE = _os.path.dirname(_os.path.dirname(_os.path.abspath(__file__)))
ROOTS = (REPO_ROOT, _os.path.join(_HERE, "spec") + "/", _os.path.join(_HERE, "contracts") + "/")
MAX_LEN = 2 ** 62      # typing fact: no Python sequence is longer than sys.maxsize


# ------------------------------------------------------------------ native meaning of contract helpers
class _OldNative:
    """native evaluation: old(x) is rewritten by the replay harness; calling it directly is an error"""

    def __call__(self, x):
        raise RuntimeError("old() outside a contract evaluation")


old = _OldNative()


def implies(a, b):
    return (not a) or b


def fdata(f):
    return f.getvalue()


def fpos(f):
    return f.tell()


def listval(l):
    return tuple(l)


def setseq(s, kind=None):
    """members of a set as a tuple (order unspecified natively)"""
    return tuple(s)


def unfold(fn, *args):
    return True


def use(lemma_result):
    return True


def fresh_obj(x):
    return True


# ------------------------------------------------------------------ registry
class Spec:
    def __init__(self, fn, name, rec=False, args=None, ret=None, fuel=1, special=None, post=None, decreases=None, axiomatic=False, opaque=False):
        self.opaque = opaque
        if opaque:
            rec, fuel = True, 0
        self.fn, self.name, self.rec, self.args, self.ret, self.fuel = fn, name, rec, args, ret, fuel
        self.special, self.post, self.decreases = special, post, decreases
        self.axiomatic = axiomatic
        self._zfun = None

    @property
    def zfun(self):
        if self._zfun is None:
            if isinstance(self.ret, tuple) and self.ret[0] == 'tuple':
                self._zfun = [z3.Function("%s_%d" % (self.name, i), *[sort_of(k) for k in self.args], sort_of(r)) for i, r in enumerate(self.ret[1])]
            else:
                self._zfun = z3.Function(self.name, *[sort_of(k) for k in self.args], sort_of(self.ret))
        return self._zfun


class Contract:
    def __init__(self, target, cls):
        self.target = target
        self.name = cls.__name__
        self.sig = dict(getattr(cls, 'sig', {}))
        self.returns = getattr(cls, 'returns', None)
        self.assigns = list(getattr(cls, 'assigns', []))
        self.inline = getattr(cls, 'inline', False)
        self.props = list(getattr(cls, 'props', []))
        self.requires = _plain(getattr(cls, 'requires', None))
        self.ensures = [(n[len('ensures_'):] or 'post', _plain(getattr(cls, n))) for n in sorted(vars(cls)) if n.startswith('ensures')]
        # raises: list of (ExcClass, when_fn or None, iff)
        self.raises = [(e, _plain(w), iff) for (e, w, iff) in getattr(cls, 'raises', [])]
        # guards: ensures-name -> predicate over the pre-state; the clauses of that ensures are claimed only where it holds
        self.guards = {k_: _plain(g_) for k_, g_ in getattr(cls, 'guards', {}).items()}
        self.canaries = list(getattr(cls, 'canaries', []))
        self.cases = getattr(cls, 'cases', None)      # list of (label, condition function over the arguments)
        self.case_chunk = getattr(cls, 'case_chunk', 1)
        self.options = dict(getattr(cls, 'options', {}))
        self.witness = _plain(getattr(cls, 'witness', None))
        self.hints = _plain(getattr(cls, 'hints', None))
        self.at_return = _plain(getattr(cls, 'at_return', None))
        # ghost cuts: [(source text the statement starts with, function over the unit's locals)]: after that statement each
        # returned clause is first proved (obligation kind 'cut') and then assumed -- the sidecar form of an assert
        self.cuts = [(e_[0], _plain(e_[1]), (e_[2] if len(e_) > 2 else None), tuple(e_[3]) if len(e_) > 3 else ()) for e_ in getattr(cls, 'cuts', [])]
        # optional third item: which occurrence (source order) of that statement text; optional fourth: integer locals whose
        # value is FORGOTTEN after the cut (replaced by a fresh unknown about which only the cut's clauses are assumed)   # ghost code over the function's locals, run at each return of the unit     # ghost code run after requires is assumed (lemma instances)
        self.func = getattr(cls, 'func', None)        # optional explicit function object getter
        self.verify = getattr(cls, 'verify', True)    # False: assumed contract (external / trusted)
        self.assumed_reason = getattr(cls, 'assumed_reason', None)
        self.samples = getattr(cls, 'samples', None)  # optional native sample generator for the cross-check
        self.ghost_args = dict(getattr(cls, 'ghost_args', {}))
        self.cls = cls


def _plain(f):
    if isinstance(f, (staticmethod, classmethod)):
        return f.__func__
    return f


class Invariant:
    def __init__(self, target, loop, fn, modifies=(), kinds=None, decreases=None):
        self.target, self.loop, self.fn = target, loop, fn
        self.modifies = list(modifies)
        self.kinds = dict(kinds or {})
        self.decreases = decreases


class Lemma:
    def __init__(self, fn, name, sig, requires, ensures, induct=None, props=(), hints=None, options=None):
        self.fn, self.name, self.sig = fn, name, sig
        self.requires, self.ensures, self.induct = requires, ensures, induct
        self.props = list(props)
        self.options = dict(options or {})
        self.assumed, self.reason, self.lean = False, None, None


class Registry:
    def __init__(self):
        self.specs = {}
        self.spec_names = {}
        self.contracts = {}
        self.invariants = {}
        self.lemmas = {}
        self.axioms = {}
        self.by_func = {}        # id(function object) -> Contract, for functions reached through tables (opcode handlers)
        self.rec_construct = {}
        self.allowed_roots = ROOTS
        self.resolvers = {}

    def contract_for(self, f, table_entries=False):
        if table_entries:
            c = self.by_func.get(id(f))
            if c is not None:
                return c
        q = "%s:%s" % (getattr(f, '__module__', '?'), getattr(f, '__qualname__', '?'))
        return self.contracts.get(q)

    def get_spec(self, name, optional=False):
        s = self.spec_names.get(name)
        if s is None and not optional:
            raise Unsupported("spec function %s not registered" % name)
        return s

    def invariant_for(self, qual, loop):
        return self.invariants.get((qual, loop))


REG = Registry()


def spec(fn=None, *, rec=False, args=None, ret=None, fuel=1, special=None, post=None, decreases=None, name=None, axiomatic=False, opaque=False):
    def deco(f):
        s = Spec(f, name or f.__name__, rec, args, ret, fuel, special, post, decreases, axiomatic, opaque)
        REG.specs[f] = s
        REG.spec_names[s.name] = s
        f._spec = s
        return f
    if fn is not None:
        return deco(fn)
    return deco


def contract(target):
    def deco(cls):
        c = Contract(target, cls)
        REG.contracts[target] = c
        return cls
    return deco


def invariant(target, loop=0, modifies=(), kinds=None, decreases=None):
    def deco(fn):
        REG.invariants[(target, loop)] = Invariant(target, loop, fn, modifies, kinds, decreases)
        return fn
    return deco


def lemma(sig, requires=None, induct=None, props=('*',), options=None):
    def deco(fn):
        REG.lemmas[fn.__name__] = Lemma(fn, fn.__name__, sig, requires, fn, induct, props, options=options)
        fn._lemma = REG.lemmas[fn.__name__]
        return fn
    return deco


def axiom(sig, requires=None, reason="", lean=None):
    """a lemma that is ASSUMED (never discharged by SMT): listed in the evidence; `lean` names a Lean file proving it"""
    def deco(fn):
        l = Lemma(fn, fn.__name__, sig, requires, fn, None, ())
        l.assumed, l.reason, l.lean = True, reason, lean
        REG.axioms[fn.__name__] = l
        fn._lemma = l
        return fn
    return deco


# ------------------------------------------------------------------ builders
class Builder:
    kind = None

    def symbolic(self, ip, name):
        raise NotImplementedError

    def sample(self, rng):
        raise NotImplementedError

    def to_engine(self, ip, native):
        return native

    def from_model(self, ip, model, value):
        raise NotImplementedError

    def native_copy(self, v):
        return v


def _mev(model, e):
    return model.eval(e, model_completion=True)


def _seq_from_model(model, e):
    """evaluate Seq(Int) expression in a model to a list of ints"""
    n = _mev(model, z3.Length(e)).as_long()
    out = []
    for i in range(n):
        x = _mev(model, e[i])
        out.append(x.as_long() if z3.is_int_value(x) else 0)
    return out


class Int(Builder):
    kind = 'int'

    def __init__(self, lo=None, hi=None, interesting=(), sample_hi=None):
        self.lo, self.hi, self.interesting = lo, hi, list(interesting)
        self.sample_hi = sample_hi       # bound for NATIVE sampling only (loop counts); the symbolic value keeps [lo, hi]

    def symbolic(self, ip, name):
        v = fresh(name, 'int')
        if self.lo is not None:
            ip.st.assume(v.e >= self.lo)
        if self.hi is not None:
            ip.st.assume(v.e <= self.hi)
        return v

    def sample(self, rng):
        lo = self.lo if self.lo is not None else -(1 << 80)
        hi = self.hi if self.hi is not None else (1 << 80)
        if self.sample_hi is not None:
            hi = min(hi, self.sample_hi)
        pool = [x for x in self.interesting + [0, 1, -1, 2, 127, 128, 252, 253, 254, 255, 256, 65535, 65536, 2**31 - 1, 2**31, 2**32 - 1, 2**32, 2**63, 2**64 - 1, lo, hi, lo + 1, hi - 1] if lo <= x <= hi]
        r = rng.random()
        if r < 0.4 and pool:
            return rng.choice(pool)
        if r < 0.7:
            span = min(hi - lo, 1 << rng.choice([4, 8, 9, 16, 17, 32, 33, 64]))
            return lo + rng.randrange(span + 1) if rng.random() < 0.5 else max(lo, min(hi, rng.randrange(span + 1)))
        return rng.randint(lo, hi)

    def from_model(self, ip, model, value):
        return _mev(model, lift(value, 'int').e).as_long()


class Bool(Builder):
    kind = 'bool'

    def symbolic(self, ip, name):
        return fresh(name, 'bool')

    def sample(self, rng):
        return rng.random() < 0.5

    def from_model(self, ip, model, value):
        return z3.is_true(_mev(model, lift(value, 'bool').e))


class Const(Builder):
    def __init__(self, v):
        self.v = v

    def symbolic(self, ip, name):
        return self.to_engine(ip, self.v)

    def sample(self, rng):
        return self.v

    def from_model(self, ip, model, value):
        return self.v


class Bytes(Builder):
    kind = 'bytes'

    def __init__(self, n=None, minlen=0, maxlen=None, sample_max=80, interesting=()):
        self.n, self.minlen, self.maxlen, self.sample_max = n, minlen, maxlen, sample_max
        self.interesting = list(interesting)

    def symbolic(self, ip, name):
        v = fresh(name, 'bytes')
        ln = z3.Length(v.e)
        if self.n is not None:
            ip.st.assume(ln == self.n)
        else:
            ip.st.assume(ln < MAX_LEN)
            if self.minlen:
                ip.st.assume(ln >= self.minlen)
            if self.maxlen is not None:
                ip.st.assume(ln <= self.maxlen)
        return v

    def sample(self, rng):
        if self.interesting and rng.random() < 0.3:
            return rng.choice(self.interesting)
        if self.n is not None:
            n = self.n
        else:
            hi = self.maxlen if self.maxlen is not None else self.sample_max
            n = rng.choice([self.minlen, hi, rng.randint(self.minlen, hi), min(hi, self.minlen + rng.randint(0, 4))])
        mode = rng.random()
        if mode < 0.2:
            return bytes(n)
        if mode < 0.3:
            return b"\xff" * n
        if mode < 0.45:
            return bytes(rng.choice([0, 1, 0x7f, 0x80, 0xff, 0x81]) for _ in range(n))
        return bytes(rng.randrange(256) for _ in range(n))

    def from_model(self, ip, model, value):
        return bytes(max(0, min(255, x)) for x in _seq_from_model(model, lift(value, 'bytes').e))


class Str(Builder):
    kind = 'str'

    def __init__(self, alphabet=None, sample_max=40):
        self.alphabet, self.sample_max = alphabet, sample_max

    def symbolic(self, ip, name):
        v = fresh(name, 'str')
        ip.st.assume(z3.Length(v.e) < MAX_LEN)
        return v

    def sample(self, rng):
        alpha = self.alphabet or "abcXYZ019 :/-_'Hp\né中"
        return "".join(rng.choice(alpha) for _ in range(rng.randint(0, self.sample_max)))

    def from_model(self, ip, model, value):
        return "".join(chr(max(0, min(0x10ffff, x))) for x in _seq_from_model(model, lift(value, 'str').e))


class SeqOf(Builder):
    """immutable sequence value (tuple natively; Seq in SMT)"""

    def __init__(self, elem, minlen=0, maxlen=None, sample_max=5, as_list=False):
        self.elem, self.minlen, self.maxlen, self.sample_max = elem, minlen, maxlen, sample_max
        self.kind = ('seq', elem.kind)
        self.as_list = as_list

    def symbolic(self, ip, name):
        v = fresh(name, self.kind)
        ln = z3.Length(v.e)
        ip.st.assume(ln < MAX_LEN)
        if self.minlen:
            ip.st.assume(ln >= self.minlen)
        if self.maxlen is not None:
            ip.st.assume(ln <= self.maxlen)
        if self.as_list:
            return ip.st.alloc({'k': 'list', 'seq': v})
        return v

    def sample(self, rng):
        hi = self.maxlen if self.maxlen is not None else self.sample_max
        n = rng.randint(self.minlen, hi)
        items = [self.elem.sample(rng) for _ in range(n)]
        return items if self.as_list else tuple(items)

    def to_engine(self, ip, native):
        items = [self.elem.to_engine(ip, x) for x in native]
        if self.as_list:
            return ip.new_list(items)
        return tuple(items)

    def from_model(self, ip, model, value):
        if isinstance(value, Loc):
            value = ip.st.cell(value)['seq']
        e = lift(value, self.kind).e
        n = _mev(model, z3.Length(e)).as_long()
        items = [self.elem.from_model(ip, model, SV(e[i], self.elem.kind)) for i in range(n)]
        return items if self.as_list else tuple(items)

    def native_copy(self, v):
        return [self.elem.native_copy(x) for x in v] if self.as_list else tuple(self.elem.native_copy(x) for x in v)


def ListOf(elem, **kw):
    return SeqOf(elem, as_list=True, **kw)


class WFile(Builder):
    """a BytesIO opened for writing, with arbitrary prior content, positioned at its end"""

    def symbolic(self, ip, name):
        d = fresh(name + "_data", 'bytes')
        return ip.st.alloc({'k': 'bytesio', 'data': d, 'pos': SV(simp(z3.Length(d.e)), 'int'), 'append': True})

    def sample(self, rng):
        f = io.BytesIO()
        f.write(bytes(rng.randrange(256) for _ in range(rng.choice([0, 0, 1, 5]))))
        return f

    def to_engine(self, ip, native):
        return ip.st.alloc({'k': 'bytesio', 'data': lift(native.getvalue()), 'pos': native.tell(), 'append': True})

    def from_model(self, ip, model, value):
        c = ip.old_heap[value.id] if getattr(ip, 'old_heap', None) and value.id in ip.old_heap else ip.st.cell(value)
        data = bytes(max(0, min(255, x)) for x in _seq_from_model(model, c['data'].e))
        f = io.BytesIO()
        f.write(data)
        return f

    def native_copy(self, v):
        f = io.BytesIO()
        f.write(v.getvalue())
        f.seek(v.tell())
        return f


class ByteArray(Builder):
    """a bytearray (by reference) with arbitrary content"""

    def __init__(self, minlen=0, maxlen=None, sample_max=8):
        self.minlen, self.maxlen, self.sample_max = minlen, maxlen, sample_max

    def symbolic(self, ip, name):
        d = fresh(name + "_data", 'bytes')
        ln = z3.Length(d.e)
        ip.st.assume(ln < MAX_LEN)
        if self.minlen:
            ip.st.assume(ln >= self.minlen)
        if self.maxlen is not None:
            ip.st.assume(ln <= self.maxlen)
        return ip.st.alloc({'k': 'bytearray', 'data': d})

    def sample(self, rng):
        hi = self.maxlen if self.maxlen is not None and self.maxlen < self.sample_max else self.sample_max
        n = rng.choice([self.minlen, hi, rng.randint(self.minlen, hi)])
        return bytearray(rng.choice([0, 0, 1, 0x80, 0xff, rng.randrange(256)]) for _ in range(n))

    def to_engine(self, ip, native):
        return ip.st.alloc({'k': 'bytearray', 'data': lift(bytes(native))})

    def from_model(self, ip, model, value):
        c = ip.old_heap[value.id] if getattr(ip, 'old_heap', None) and value.id in ip.old_heap else ip.st.cell(value)
        return bytearray(max(0, min(255, x)) for x in _seq_from_model(model, c['data'].e))

    def native_copy(self, v):
        return bytearray(v)


class RFile(Builder):
    """a BytesIO opened for reading: arbitrary content, arbitrary position within it"""

    def __init__(self, at_start=False, sample=None):
        self.at_start = at_start
        self._sample = sample

    def symbolic(self, ip, name):
        d = fresh(name + "_data", 'bytes')
        if self.at_start:
            pos = 0
        else:
            pos = fresh(name + "_pos", 'int')
            ip.st.assume(z3.And(pos.e >= 0, pos.e <= z3.Length(d.e)))
        return ip.st.alloc({'k': 'bytesio', 'data': d, 'pos': pos, 'append': False})

    def sample(self, rng):
        data = self._sample(rng) if self._sample else bytes(rng.choice([0, 1, 0xfc, 0xfd, 0xfe, 0xff, rng.randrange(256)]) for _ in range(rng.randint(0, 12)))
        f = io.BytesIO(data)
        if not self.at_start:
            f.seek(rng.randint(0, min(2, len(data))))
        return f

    def to_engine(self, ip, native):
        return ip.st.alloc({'k': 'bytesio', 'data': lift(native.getvalue()), 'pos': native.tell(), 'append': False})

    def from_model(self, ip, model, value):
        c = ip.old_heap[value.id] if getattr(ip, 'old_heap', None) and value.id in ip.old_heap else ip.st.cell(value)
        data = bytes(max(0, min(255, x)) for x in _seq_from_model(model, c['data'].e))
        f = io.BytesIO(data)
        p = c['pos']
        f.seek(_mev(model, lift(p, 'int').e).as_long())
        return f

    def native_copy(self, v):
        f = io.BytesIO(v.getvalue())
        f.seek(v.tell())
        return f


class Tup(Builder):
    def __init__(self, *elems):
        self.elems = elems

    def symbolic(self, ip, name):
        return tuple(b.symbolic(ip, "%s_%d" % (name, i)) for i, b in enumerate(self.elems))

    def sample(self, rng):
        return tuple(b.sample(rng) for b in self.elems)

    def to_engine(self, ip, native):
        return tuple(b.to_engine(ip, x) for b, x in zip(self.elems, native))

    def from_model(self, ip, model, value):
        return tuple(b.from_model(ip, model, x) for b, x in zip(self.elems, value))


class OneOf(Builder):
    """finite concrete alternatives; the engine enumerates them as separate cases"""

    def __init__(self, *vals):
        self.vals = vals

    def sample(self, rng):
        return rng.choice(self.vals)


class Opt(Builder):
    """None or a value of the inner builder (decided by a path branch)"""

    def __init__(self, inner):
        self.inner = inner

    def symbolic(self, ip, name):
        isnone = fresh(name + "_isnone", 'bool')
        if ip.st.branch(isnone.e, name + " is None"):
            return None
        return self.inner.symbolic(ip, name)

    def sample(self, rng):
        return None if rng.random() < 0.3 else self.inner.sample(rng)

    def to_engine(self, ip, native):
        return None if native is None else self.inner.to_engine(ip, native)

    def from_model(self, ip, model, value):
        return None if value is None else self.inner.from_model(ip, model, value)


class Obj(Builder):
    """by-reference instance of a real class with the given field builders (no __init__ run)"""

    def __init__(self, cls, fields, make=None, extract=None, shared=False):
        self.cls, self.fields = cls, fields
        self.shared = shared
        self.make = make          # native constructor from a dict of field values
        self.extract = extract

    def symbolic(self, ip, name):
        f = {k: b.symbolic(ip, "%s_%s" % (name, k)) for k, b in self.fields.items()}
        return ip.st.alloc({'k': 'obj', 'cls': self.cls, 'f': f})

    def sample(self, rng):
        vals = {k: b.sample(rng) for k, b in self.fields.items()}
        return self._mk(vals)

    def _mk(self, vals):
        if self.make:
            return self.make(vals)
        o = self.cls.__new__(self.cls)
        for k, v in vals.items():
            setattr(o, k, v)
        return o

    def to_engine(self, ip, native):
        f = {k: b.to_engine(ip, getattr(native, k)) for k, b in self.fields.items()}
        return ip.st.alloc({'k': 'obj', 'cls': self.cls, 'f': f})

    def from_model(self, ip, model, value):
        c = ip.old_heap[value.id] if getattr(ip, 'old_heap', None) and value.id in ip.old_heap else ip.st.cell(value)
        vals = {k: b.from_model(ip, model, c['f'][k]) for k, b in self.fields.items()}
        return self._mk(vals)

    def native_copy(self, v):
        import copy
        if self.shared:
            return v         # an object the unit only reads (and that cannot be deep-copied, e.g. tuple subclasses with extra state)
        return copy.deepcopy(v)


class Rec(Builder):
    """value-semantics record (element of symbolic collections)"""

    def __init__(self, rectype, fields, make=None):
        self.rt, self.fields, self.make = rectype, fields, make
        self.kind = ('rec', rectype)

    def symbolic(self, ip, name):
        return fresh(name, self.kind)

    def sample(self, rng):
        vals = {k: b.sample(rng) for k, b in self.fields.items()}
        return self.make(vals) if self.make else vals

    def to_engine(self, ip, native):
        vals = {k: b.to_engine(ip, getattr(native, k)) for k, b in self.fields.items()}
        return self.rt.make(**vals)

    def from_model(self, ip, model, value):
        vals = {k: b.from_model(ip, model, SV(self.rt.acc[k](value.e), b.kind)) for k, b in self.fields.items()}
        return self.make(vals) if self.make else vals


class SmallList(Builder):
    """a list (by reference) of 0..maxlen elements; its length is decided by a path branch"""

    def __init__(self, elem, maxlen=2):
        self.elem, self.maxlen = elem, maxlen

    def symbolic(self, ip, name):
        for k in range(self.maxlen):
            b = fresh("%s_len_is_%d" % (name, k), 'bool')
            if ip.st.branch(b.e, "%s has %d items" % (name, k)):
                return ip.new_list([self.elem.symbolic(ip, "%s_%d" % (name, j)) for j in range(k)])
        return ip.new_list([self.elem.symbolic(ip, "%s_%d" % (name, j)) for j in range(self.maxlen)])

    def sample(self, rng):
        return [self.elem.sample(rng) for _ in range(rng.randint(0, self.maxlen))]

    def to_engine(self, ip, native):
        return ip.new_list([self.elem.to_engine(ip, x) for x in native])

    def from_model(self, ip, model, value):
        return [self.elem.from_model(ip, model, x) for x in ip.st.cell(value)['items']]
