#!/bin/bash
# try_seed.sh <seed dir with patch.diff demo.py meta.json> [--inplace]
# 1. confirms the mutant (demo passes on pristine, fails when patched, suite still passes)
# 2. runs the property's quick check against the patched tree and prints what it reported
D="$(realpath "$1")"; MODE="$2"
PROP=$(python3 -c "import json,sys; print(json.load(open('$D/meta.json'))['property'])")
mkdir -p /root/dev          # scratch outside /repo and /verif
WT=/root/dev/seedcheck
if [ ! -d $WT ]; then git -C /repo worktree add -q --detach $WT HEAD; fi
git -C $WT checkout -q --detach $(git -C /repo rev-parse HEAD) 2>/dev/null; git -C $WT checkout -q -- . ; git -C $WT clean -fdq
cd $WT
/venv/bin/python "$D/demo.py" >/root/dev/seed_demo0.log 2>&1; RC0=$?
if ! git apply --check "$D/patch.diff" 2>/dev/null; then echo "RESULT $D prop=$PROP patch-does-not-apply"; exit 0; fi
git apply "$D/patch.diff"
/venv/bin/python "$D/demo.py" >/root/dev/seed_demo1.log 2>&1; RC1=$?
/verif/tools/baseline.sh $WT >/root/dev/seed_bl.log 2>&1; BL=$?
cd /verif
if [ "$MODE" = "--inplace" ]; then
  git -C /repo apply "$D/patch.diff" && PYVC_EVIDENCE_DIR=/root/dev/seed_evidence timeout 1500 ./vf check $PROP > /root/dev/seed_vf.log 2>&1; VF=$?; git -C /repo checkout -- .
else
  PYVC_EVIDENCE_DIR=/root/dev/seed_evidence PYVC_REPO=$WT timeout 1500 ./vf check $PROP > /root/dev/seed_vf.log 2>&1; VF=$?
fi
NV=$(grep -c "^VIOLATION" /root/dev/seed_vf.log)
echo "RESULT $D prop=$PROP demo_pristine=$RC0 demo_patched=$RC1 baseline=$BL vf_exit=$VF violations=$NV"
grep "^VIOLATION" /root/dev/seed_vf.log | sed 's/replay=[^ ]* //' | cut -c1-220 | sort | uniq -c | head -5
grep "^UNDECIDED\|^CHECKER-CRASH\|^ENGINE" /root/dev/seed_vf.log | cut -c1-200 | head -3
git -C $WT checkout -q -- . 
