"""contracts whose postconditions speak about `result` must say what kind of value is returned (`returns` builder):
without it a call site sees result = None and the postcondition would be plainly false there (the engine refuses that,
this scan finds such contracts before they are used)"""
import os, sys, inspect, re
HERE = os.path.dirname(os.path.dirname(os.path.abspath(__file__)))
sys.path.insert(0, HERE)
sys.path.insert(0, os.environ.get('PYVC_REPO', '/repo'))
from pyvc import api, cli
cli.load_all()
bad = 0
for t, c in sorted(api.REG.contracts.items()):
    if c.returns is not None:
        continue
    for name, fn in c.ensures:
        try:
            src = inspect.getsource(fn)
        except Exception:
            continue
        body = src.split(':', 1)[1] if ':' in src else src
        if re.search(r'\bresult\b', body):
            bad += 1
            print("NO-RETURNS", t, "ensures_" + name)
            break
print("contracts:", len(api.REG.contracts), "without returns but using result:", bad)
sys.exit(1 if bad else 0)
