#!/bin/sh
# runs the repository's pinned suite and checks that every stable_pass test of /root/.vp/BASELINE.json still passes
# (the suite leaves temporary directories behind: it gets its own TMPDIR, removed afterwards)
REPO="${1:-/repo}"
SCRATCH="$(mktemp -d /tmp/baseline.XXXXXX)"
OUT="$SCRATCH/junit.xml"
mkdir -p "$SCRATCH/tmp"
cd "$REPO" && TMPDIR="$SCRATCH/tmp" /venv/bin/python -m pytest -q -p no:cacheprovider --timeout=900 --continue-on-collection-errors --junitxml="$OUT" >/dev/null 2>&1
python3 - "$OUT" <<'PY'
import json, sys, xml.etree.ElementTree as ET
sp = set(json.load(open('/root/.vp/BASELINE.json'))['stable_pass'])
res = {}
for tc in ET.parse(sys.argv[1]).iter('testcase'):
    res[tc.get('classname') + '::' + tc.get('name')] = not any(c.tag in ('failure', 'error', 'skipped') for c in tc)
bad = sorted(n for n in sp if not res.get(n))
print("stable_pass: %d, passing now: %d" % (len(sp), len(sp) - len(bad)))
for n in bad[:40]:
    print("REGRESSION", n)
sys.exit(1 if bad else 0)
PY
rc=$?
rm -rf "$SCRATCH"
exit $rc
