"""every canary pattern of every contract must occur in the (unparsed) source of the function it mutates"""
import os, sys
HERE = os.path.dirname(os.path.dirname(os.path.abspath(__file__)))
sys.path.insert(0, HERE)
sys.path.insert(0, os.environ.get('PYVC_REPO', '/repo'))
from pyvc import api, verify, cli
cli.load_all()
bad = 0
n = 0
for t, c in api.REG.contracts.items():
    for cn in c.canaries:
        n += 1
        try:
            if len(cn) == 3:
                tgt, old, new = cn
                f = tgt() if callable(tgt) else verify.resolve(tgt)
            else:
                old, new = cn
                f = verify.target_function(c)
            if f is not None:
                verify.mutate_function(f, old, new)
        except Exception as ex:
            bad += 1
            print("BAD", t, cn[-2], "--", ex)
print("canaries checked:", n, "bad:", bad)
sys.exit(1 if bad else 0)
