#!/usr/bin/env python3
"""Extract the coordinate formulas of pycoin.ecdsa.Curve.add from the CURRENT source of /repo and emit the Lean theorems
that state: these formulas, read modulo p, are Mathlib's addX / addY for y^2 = x^3 + a x + b over ZMod p.

What is extracted (mechanically, from the AST): the two assignments to `slope` (doubling branch and generic branch) and the
assignments to `x3` and `y3`.  What the extraction drops: the control flow around them (identity / inverse cases, which the
SMT side covers), `self.Point(...)` (range/on-curve check) and the computation of the modular inverse, which is
represented by its defining congruence (inverse_mod's contract).  Translation: Python ints -> Lean ℤ, `%` -> Int.emod,
`self._a` -> a, `self.inverse_mod(e, p)` -> a fresh variable `inv` with hypothesis (inv * e) % p = 1."""
import ast
import os
import sys

REPO = os.environ.get('PYVC_REPO', '/repo')
HERE = os.path.dirname(os.path.dirname(os.path.abspath(__file__)))


class Tr(ast.NodeVisitor):
    def __init__(self):
        self.inv_args = []

    def tr(self, n):
        if isinstance(n, ast.BinOp):
            op = {ast.Add: '+', ast.Sub: '-', ast.Mult: '*', ast.Mod: '%'}.get(type(n.op))
            if op is None:
                raise ValueError("operator %s not in the arithmetic fragment" % type(n.op).__name__)
            return "(%s %s %s)" % (self.tr(n.left), op, self.tr(n.right))
        if isinstance(n, ast.UnaryOp) and isinstance(n.op, ast.USub):
            return "(-%s)" % self.tr(n.operand)
        if isinstance(n, ast.Constant) and isinstance(n.value, int):
            return str(n.value)
        if isinstance(n, ast.Name):
            return {'p': '(p : ℤ)'}.get(n.id, n.id)
        if isinstance(n, ast.Attribute) and isinstance(n.value, ast.Name) and n.value.id == 'self' and n.attr in ('_a', '_b', '_p'):
            return {'_a': 'a', '_b': 'b', '_p': '(p : ℤ)'}[n.attr]
        if isinstance(n, ast.Call) and isinstance(n.func, ast.Attribute) and n.func.attr == 'inverse_mod' and len(n.args) == 2:
            self.inv_args.append(self.tr(n.args[0]))
            return "inv"
        raise ValueError("expression outside the arithmetic fragment: %s" % ast.dump(n)[:120])


def main():
    src = open(os.path.join(REPO, 'pycoin/ecdsa/Curve.py')).read()
    tree = ast.parse(src)
    add = [n for n in ast.walk(tree) if isinstance(n, ast.FunctionDef) and n.name == 'add'][0]
    assigns = {}
    for n in ast.walk(add):
        if isinstance(n, ast.Assign) and len(n.targets) == 1 and isinstance(n.targets[0], ast.Name):
            assigns.setdefault(n.targets[0].id, []).append(n.value)
    if len(assigns.get('slope', [])) != 2 or len(assigns.get('x3', [])) != 1 or len(assigns.get('y3', [])) != 1:
        print("EXTRACTION-FAILED: Curve.add no longer has the shape (two slope assignments, x3, y3)")
        return 2
    out = [open(os.path.join(HERE, 'lean', 'CurveAdd.lean')).read().split('/-- generic case')[0]]
    # which slope assignment is the doubling one?  the one whose inverse is taken of something mentioning y0
    cases = []
    for v in assigns['slope']:
        t = Tr()
        s = t.tr(v)
        if len(t.inv_args) != 1:
            print("EXTRACTION-FAILED: slope does not use exactly one modular inverse")
            return 2
        cases.append((s, t.inv_args[0]))
    t = Tr()
    x3, y3 = t.tr(assigns['x3'][0]), t.tr(assigns['y3'][0])
    for (slope, invarg) in cases:
        doubling = 'y0' in invarg and 'x1' not in invarg
        name = 'gen_add_double' if doubling else 'gen_add_generic'
        hyps = ("    (hxe : (x0 - x1) % (p : ℤ) = 0)\n    (hyn : (y0 + y1) % (p : ℤ) ≠ 0)\n"
                "    (h0 : (y0 * y0 - (x0 * x0 * x0 + a * x0 + b)) % (p : ℤ) = 0)\n"
                "    (h1 : (y1 * y1 - (x1 * x1 * x1 + a * x1 + b)) % (p : ℤ) = 0)\n") if doubling else "    (hne : (x0 - x1) % (p : ℤ) ≠ 0)\n"
        out.append("/-- generated from /repo/pycoin/ecdsa/Curve.py (%s branch of Curve.add) -/\n"
                   "theorem %s (a b x0 y0 x1 y1 inv : ℤ)\n%s    (hinv : (inv * %s) %% (p : ℤ) = 1) :\n"
                   "    let slope := %s\n    let x3 := %s\n    let y3 := %s\n"
                   "    ((x3 : ℤ) : ZMod p) = (shortW p a b).addX x0 x1 ((shortW p a b).slope x0 x1 y0 y1) ∧\n"
                   "    ((y3 : ℤ) : ZMod p) = (shortW p a b).addY x0 x1 y0 ((shortW p a b).slope x0 x1 y0 y1) := by\n"
                   % ("doubling" if doubling else "generic", name, hyps, invarg, slope, x3, y3))
        out.append(open(os.path.join(HERE, 'lean', 'proof_double.txt' if doubling else 'proof_generic.txt')).read())
    os.makedirs(os.path.join(HERE, 'lean', 'gen'), exist_ok=True)
    path = os.path.join(HERE, 'lean', 'gen', 'CurveAddGen.lean')
    open(path, 'w').write("\n".join(out))
    print("GENERATED", path)
    return 0


if __name__ == '__main__':
    sys.exit(main())
