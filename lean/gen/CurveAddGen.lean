/-
The integer formulas of pycoin.ecdsa.Curve.add (generic and doubling case), read modulo p, are the group law of
Mathlib's Weierstrass curve  y² = x³ + a x + b  over ZMod p  (WeierstrassCurve.Affine.addX / addY / slope, whose
`Point` type carries Mathlib's proof that this law is an abelian group).  Python's `%` with a positive modulus is
Lean's `Int.emod`.  The statements below are the ones the SMT side proves the real code equal to
(spec/curve.py: add_generic_spec / add_double_spec); inverse_mod is represented by its defining congruence.
-/
import Mathlib.AlgebraicGeometry.EllipticCurve.Affine.Point
import Mathlib.Algebra.Field.ZMod
import Mathlib.Tactic

open WeierstrassCurve WeierstrassCurve.Affine

variable {p : ℕ} [Fact p.Prime]

/-- the short Weierstrass curve y² = x³ + a x + b over ZMod p -/
def shortW (p : ℕ) (a b : ℤ) : WeierstrassCurve.Affine (ZMod p) :=
  { a₁ := 0, a₂ := 0, a₃ := 0, a₄ := (a : ZMod p), a₆ := (b : ZMod p) }

theorem cast_ne_of_emod_ne (u : ℤ) (h : u % (p : ℤ) ≠ 0) : ((u : ℤ) : ZMod p) ≠ 0 := by
  intro h0
  apply h
  have := (ZMod.intCast_zmod_eq_zero_iff_dvd u p).mp h0
  exact Int.emod_eq_zero_of_dvd this

theorem cast_ne_of_inv (u inv : ℤ) (h : (inv * u) % (p : ℤ) = 1) : ((u : ℤ) : ZMod p) ≠ 0 := by
  have h1 : (((inv * u) % (p : ℤ) : ℤ) : ZMod p) = ((1 : ℤ) : ZMod p) := by rw [h]
  rw [ZMod.intCast_mod] at h1
  push_cast at h1
  intro hz
  rw [hz, mul_zero] at h1
  exact zero_ne_one h1

theorem cast_inv_of_emod (u inv : ℤ) (h : (inv * u) % (p : ℤ) = 1) : ((inv : ℤ) : ZMod p) = ((u : ℤ) : ZMod p)⁻¹ := by
  have h1 : (((inv * u) % (p : ℤ) : ℤ) : ZMod p) = ((1 : ℤ) : ZMod p) := by rw [h]
  rw [ZMod.intCast_mod] at h1
  push_cast at h1
  have hu : ((u : ℤ) : ZMod p) ≠ 0 := by
    intro hz
    rw [hz, mul_zero] at h1
    exact zero_ne_one h1
  field_simp
  exact h1


/-- generated from /repo/pycoin/ecdsa/Curve.py (generic branch of Curve.add) -/
theorem gen_add_generic (a b x0 y0 x1 y1 inv : ℤ)
    (hne : (x0 - x1) % (p : ℤ) ≠ 0)
    (hinv : (inv * (x1 - x0)) % (p : ℤ) = 1) :
    let slope := (((y1 - y0) * inv) % (p : ℤ))
    let x3 := ((((slope * slope) - x0) - x1) % (p : ℤ))
    let y3 := (((slope * (x0 - x3)) - y0) % (p : ℤ))
    ((x3 : ℤ) : ZMod p) = (shortW p a b).addX x0 x1 ((shortW p a b).slope x0 x1 y0 y1) ∧
    ((y3 : ℤ) : ZMod p) = (shortW p a b).addY x0 x1 y0 ((shortW p a b).slope x0 x1 y0 y1) := by

  intro slope x3 y3
  have hx : ((x0 : ℤ) : ZMod p) ≠ ((x1 : ℤ) : ZMod p) := by
    have := cast_ne_of_emod_ne (p := p) (x0 - x1) hne
    push_cast at this
    exact sub_ne_zero.mp this
  have hi := cast_inv_of_emod (p := p) _ inv hinv
  push_cast at hi
  have hu := cast_ne_of_inv (p := p) _ inv hinv
  push_cast at hu
  rw [slope_of_X_ne hx]
  have hd : ((x0 : ℤ) : ZMod p) - ((x1 : ℤ) : ZMod p) ≠ 0 := sub_ne_zero.mpr hx
  have hd' : ((x1 : ℤ) : ZMod p) - ((x0 : ℤ) : ZMod p) ≠ 0 := sub_ne_zero.mpr (Ne.symm hx)
  constructor
  · simp only [x3, slope, addX, shortW]
    push_cast [ZMod.intCast_mod]
    rw [hi]
    field_simp
    ring
  · simp only [y3, x3, slope, addY, negAddY, negY, addX, shortW]
    push_cast [ZMod.intCast_mod]
    rw [hi]
    field_simp
    ring

/-- generated from /repo/pycoin/ecdsa/Curve.py (doubling branch of Curve.add) -/
theorem gen_add_double (a b x0 y0 x1 y1 inv : ℤ)
    (hxe : (x0 - x1) % (p : ℤ) = 0)
    (hyn : (y0 + y1) % (p : ℤ) ≠ 0)
    (h0 : (y0 * y0 - (x0 * x0 * x0 + a * x0 + b)) % (p : ℤ) = 0)
    (h1 : (y1 * y1 - (x1 * x1 * x1 + a * x1 + b)) % (p : ℤ) = 0)
    (hinv : (inv * (2 * y0)) % (p : ℤ) = 1) :
    let slope := (((((3 * x0) * x0) + a) * inv) % (p : ℤ))
    let x3 := ((((slope * slope) - x0) - x1) % (p : ℤ))
    let y3 := (((slope * (x0 - x3)) - y0) % (p : ℤ))
    ((x3 : ℤ) : ZMod p) = (shortW p a b).addX x0 x1 ((shortW p a b).slope x0 x1 y0 y1) ∧
    ((y3 : ℤ) : ZMod p) = (shortW p a b).addY x0 x1 y0 ((shortW p a b).slope x0 x1 y0 y1) := by

  intro slope x3 y3
  have cz : ∀ u : ℤ, u % (p : ℤ) = 0 → ((u : ℤ) : ZMod p) = 0 := by
    intro u hu
    exact (ZMod.intCast_zmod_eq_zero_iff_dvd u p).mpr (Int.dvd_of_emod_eq_zero hu)
  have hx : ((x0 : ℤ) : ZMod p) = ((x1 : ℤ) : ZMod p) := by
    have := cz _ hxe
    push_cast at this
    exact sub_eq_zero.mp this
  have hy : ((y0 : ℤ) : ZMod p) + ((y1 : ℤ) : ZMod p) ≠ 0 := by
    have := cast_ne_of_emod_ne (p := p) (y0 + y1) hyn
    push_cast at this
    exact this
  have e0 := cz _ h0
  have e1 := cz _ h1
  push_cast at e0 e1
  rw [← hx] at e1
  -- same x, both on the curve: y0² = y1², and y0 + y1 ≠ 0, so y0 = y1
  have hyy : ((y0 : ℤ) : ZMod p) = ((y1 : ℤ) : ZMod p) := by
    have hd : (((y0 : ℤ) : ZMod p) - y1) * (((y0 : ℤ) : ZMod p) + y1) = 0 := by
      have : ((y0 : ℤ) : ZMod p) * y0 - y1 * y1 = 0 := by linear_combination e0 - e1
      linear_combination this
    rcases mul_eq_zero.mp hd with h | h
    · exact sub_eq_zero.mp h
    · exact absurd h hy
  have hi := cast_inv_of_emod (p := p) _ inv hinv
  push_cast at hi
  have hu := cast_ne_of_inv (p := p) _ inv hinv
  push_cast at hu
  have h2y : (2 : ZMod p) * ((y0 : ℤ) : ZMod p) ≠ 0 := by
    intro hz
    apply hy
    rw [← hyy]
    linear_combination hz
  have hneg : ((y0 : ℤ) : ZMod p) ≠ (shortW p a b).negY x1 y1 := by
    simp only [negY, shortW]
    intro hc
    apply hy
    linear_combination hc
  rw [slope_of_Y_ne hx hneg]
  have hden : ((y0 : ℤ) : ZMod p) - (shortW p a b).negY x0 y0 = 2 * ((y0 : ℤ) : ZMod p) := by
    simp only [negY, shortW]; ring
  rw [hden]
  constructor
  · simp only [x3, slope, addX, shortW]
    push_cast [ZMod.intCast_mod]
    rw [hi, ← hx]
    field_simp
    ring
  · simp only [y3, x3, slope, addY, negAddY, negY, addX, shortW]
    push_cast [ZMod.intCast_mod]
    rw [hi, ← hx]
    field_simp
    ring
