/-
Group facts assumed (as named axioms `smul_add`, `smul_mod_order`) by the SMT side of the verification.
They hold in every additive commutative group; `smul k P` on the SMT side is `k • P` here, `padd` is `+`,
`GPT()` is the generator `G` with `n • G = 0` (n the group order).  Checked by Lean 4 + Mathlib on every thorough run.
-/
import Mathlib.Algebra.Group.Defs
import Mathlib.Algebra.Group.Basic
import Mathlib.Algebra.Module.Basic
import Mathlib.Tactic

theorem smul_add_law {A : Type*} [AddCommGroup A] (a b : ℤ) (P : A) :
    (a + b) • P = a • P + b • P := add_zsmul P a b

theorem smul_mod_order_law {A : Type*} [AddCommGroup A] (G : A) (n : ℤ) (hn : n • G = 0) (a : ℤ) :
    (a % n) • G = a • G := by
  have h : a = a % n + n * (a / n) := (Int.emod_add_mul_ediv a n).symm
  conv_rhs => rw [h]
  rw [add_zsmul, mul_comm, mul_zsmul, hn, smul_zero, add_zero]

theorem smul_one_law {A : Type*} [AddCommGroup A] (P : A) : (1 : ℤ) • P = P := one_zsmul P

theorem smul_neg_one_law {A : Type*} [AddCommGroup A] (P : A) : (-1 : ℤ) • P = -P := by
  rw [neg_zsmul, one_zsmul]

theorem smul_zero_left_law {A : Type*} [AddCommGroup A] (P : A) : (0 : ℤ) • P = 0 := zero_zsmul P

theorem smul_zero_right_law {A : Type*} [AddCommGroup A] (k : ℤ) : k • (0 : A) = 0 := smul_zero k

/-- in a group all of whose elements are killed by n (a group of order n), kP depends only on k mod n -/
theorem smul_mod_order_pt_law {A : Type*} [AddCommGroup A] (n : ℤ) (hn : ∀ P : A, n • P = 0) (a : ℤ) (P : A) :
    (a % n) • P = a • P := smul_mod_order_law P n (hn P) a

theorem padd_comm_law {A : Type*} [AddCommGroup A] (P Q : A) : P + Q = Q + P := add_comm P Q
