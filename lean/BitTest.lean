/-
`bit_test`: the meaning of Python's `x & 2**k` for non-negative x, as used by the scalar-multiplication ladders:
it is non-zero exactly when bit k of x is set, i.e. when (x >> k) is odd, where `shr x k` is k-fold halving.
-/
import Mathlib.Data.Nat.Bitwise
import Mathlib.Tactic

def shr : ℕ → ℕ → ℕ
  | x, 0 => x
  | x, k + 1 => shr x k / 2

theorem shr_eq_div (x k : ℕ) : shr x k = x / 2 ^ k := by
  induction k with
  | zero => simp [shr]
  | succ k ih => rw [shr, ih, Nat.div_div_eq_div_mul, pow_succ]

theorem bit_test_law (x k : ℕ) : (x &&& 2 ^ k ≠ 0) ↔ (shr x k % 2 = 1) := by
  rw [shr_eq_div, Nat.and_two_pow]
  have hp : 0 < 2 ^ k := Nat.pos_of_ne_zero (by positivity)
  rw [Nat.testBit_eq_decide_div_mod_eq]
  by_cases h : x / 2 ^ k % 2 = 1
  · simp [h]
  · simp [h]
