/-
Bit-level laws behind the treatment of Python's `|` and `^` on non-negative integers in the MurmurHash3 proof (C19):
  * or_disjoint_law : a ||| b = a + b  when the low k bits of a are zero and b < 2^k  (shift-and-or assembling of words,
                      32-bit rotations written as (x << r) | (x >> (32-r)))
  * xor_mod_law     : (a ^^^ b) % 2^k = (a % 2^k) ^^^ (b % 2^k)   (xor commutes with truncation to a word)
  * xor_lt_law      : a, b < 2^k  ->  a ^^^ b < 2^k
-/
import Mathlib.Data.Nat.Bitwise
import Mathlib.Tactic

theorem or_disjoint_law (a b k : ℕ) (ha : a % 2 ^ k = 0) (hb : b < 2 ^ k) : a ||| b = a + b := by
  obtain ⟨q, rfl⟩ : ∃ q, a = 2 ^ k * q := ⟨a / 2 ^ k, by
    have := Nat.div_add_mod a (2 ^ k)
    omega⟩
  exact (Nat.two_pow_add_eq_or_of_lt hb q).symm

theorem xor_mod_law (a b k : ℕ) : (a ^^^ b) % 2 ^ k = (a % 2 ^ k) ^^^ (b % 2 ^ k) :=
  Nat.xor_mod_two_pow

theorem xor_lt_law (a b k : ℕ) (ha : a < 2 ^ k) (hb : b < 2 ^ k) : a ^^^ b < 2 ^ k :=
  Nat.xor_lt_two_pow ha hb
