/-
Number-theory facts assumed (as named axioms `prime_coprime`, `bezout_mod`, `inverse_unique`, `pow2_bit_test`)
by the SMT side of the proofs of Curve.inverse_mod and the scalar-multiplication ladders (C02).
Python's `%` and `//` with a positive modulus are Lean's `Int.emod` / `Int.ediv` (`%`, `/` on ℤ).
-/
import Mathlib.Data.Int.GCD
import Mathlib.Data.Nat.Prime.Basic
import Mathlib.Data.Int.ModEq
import Mathlib.Tactic

/-- `prime_coprime`: a prime modulus is coprime to every residue it does not divide. -/
theorem prime_coprime_law (p a : ℤ) (hp : Nat.Prime p.natAbs) (h : a % p ≠ 0) :
    Int.gcd p (a % p) = 1 := by
  have hnd : ¬ (p ∣ a % p) := by
    intro hd
    have z := Int.emod_eq_zero_of_dvd hd
    rw [Int.emod_emod_of_dvd a (dvd_refl p)] at z
    exact h z
  have : Nat.Coprime p.natAbs (a % p).natAbs := by
    rw [Nat.Prime.coprime_iff_not_dvd hp]
    intro hd
    exact hnd (Int.natAbs_dvd_natAbs.mp hd)
  simpa [Int.gcd] using this

/-- `bezout_mod`: a Bezout identity u*a + v*m = 1 makes u the inverse of a modulo m. -/
theorem bezout_mod_law (u a v m : ℤ) (hm : 2 ≤ m) (h : u * a + v * m = 1) : (u * a) % m = 1 := by
  have e : u * a = 1 + m * (-v) := by linarith
  rw [e, Int.add_mul_emod_self_left]
  exact Int.emod_eq_of_lt (by norm_num) (by linarith)

/-- `inverse_unique`: a residue has at most one inverse in (0, m). -/
theorem inverse_unique_law (m a r1 r2 : ℤ) (hm : 2 ≤ m) (h1 : 0 < r1) (h1' : r1 < m) (h2 : 0 < r2) (h2' : r2 < m)
    (e1 : (r1 * a) % m = 1) (e2 : (r2 * a) % m = 1) : r1 = r2 := by
  have one : (1 : ℤ) % m = 1 := Int.emod_eq_of_lt (by norm_num) (by linarith)
  have c1 : r1 * a ≡ 1 [ZMOD m] := by unfold Int.ModEq; rw [e1, one]
  have c2 : r2 * a ≡ 1 [ZMOD m] := by unfold Int.ModEq; rw [e2, one]
  have k1 : r1 * (r2 * a) ≡ r1 * 1 [ZMOD m] := Int.ModEq.mul_left r1 c2
  have k2 : r2 * (r1 * a) ≡ r2 * 1 [ZMOD m] := Int.ModEq.mul_left r2 c1
  have same : r1 * (r2 * a) = r2 * (r1 * a) := by ring
  have : r1 ≡ r2 [ZMOD m] := by
    have a1 : r1 ≡ r1 * (r2 * a) [ZMOD m] := by simpa using k1.symm
    have a2 : r2 * (r1 * a) ≡ r2 [ZMOD m] := by simpa using k2
    exact a1.trans (same ▸ a2)
  unfold Int.ModEq at this
  rw [Int.emod_eq_of_lt (le_of_lt h1) h1', Int.emod_eq_of_lt (le_of_lt h2) h2'] at this
  exact this

/-- `mod_mul_cong`: the multiplicand may be reduced modulo m first. -/
theorem mod_mul_cong_law (r x m : ℤ) : (r * (x % m)) % m = (r * x) % m := by
  rw [Int.mul_emod, Int.emod_emod_of_dvd x (dvd_refl m), ← Int.mul_emod]

/-- `mod_shift`: adding the modulus to a factor does not change the product modulo m. -/
theorem mod_shift_law (r a m : ℤ) : ((r + m) * a) % m = (r * a) % m := by
  have e : (r + m) * a = r * a + m * a := by ring
  rw [e, Int.add_mul_emod_self_left]

/-- `exists_inverse` (backs the definitional axiom `inv_mod_def`): a residue coprime to m has an inverse in (0, m). -/
theorem exists_inverse (m a : ℤ) (hm : 2 ≤ m) (h : Int.gcd m (a % m) = 1) :
    ∃ w : ℤ, 0 < w ∧ w < m ∧ (w * a) % m = 1 := by
  have hm0 : (0 : ℤ) < m := by linarith
  have one : (1 : ℤ) % m = 1 := Int.emod_eq_of_lt (by norm_num) (by linarith)
  have hb := Int.gcd_eq_gcd_ab m (a % m)
  rw [h] at hb
  -- 1 = m * x + (a % m) * y
  set y := Int.gcdB m (a % m) with hy
  set x := Int.gcdA m (a % m) with hx
  refine ⟨y % m, ?_, Int.emod_lt_of_pos _ hm0, ?_⟩
  · have nn : 0 ≤ y % m := Int.emod_nonneg _ (by linarith)
    rcases lt_or_eq_of_le nn with hlt | heq
    · exact hlt
    · exfalso
      have hdvd : m ∣ y := Int.dvd_of_emod_eq_zero heq.symm
      obtain ⟨t, ht⟩ := hdvd
      have : (1 : ℤ) = m * (x + (a % m) * t) := by
        have : ((1 : ℕ) : ℤ) = m * x + (a % m) * y := hb
        push_cast at this
        rw [this, ht]; ring
      have hd : m ∣ 1 := ⟨_, this⟩
      have := Int.le_of_dvd (by norm_num) hd
      linarith
  · have key : (y % m * a) % m = (y * a) % m := by
      rw [mul_comm (y % m) a, mod_mul_cong_law a y m, mul_comm]
    rw [key]
    have e2 : (y * a) % m = (y * (a % m)) % m := (mod_mul_cong_law y a m).symm
    rw [e2]
    have : y * (a % m) = 1 + m * (-x) := by
      have : ((1 : ℕ) : ℤ) = m * x + (a % m) * y := hb
      push_cast at this
      linarith
    rw [this, Int.add_mul_emod_self_left, one]
