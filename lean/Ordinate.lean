/-
`ordinate_by_parity`: on a curve y^2 = f(x) over F_p (p an odd prime) two points with the same abscissa have
ordinates y and p - y, which differ in parity; so abscissa and parity determine the ordinate (SEC compressed keys).
-/
import Mathlib.Data.ZMod.Basic
import Mathlib.Tactic

theorem ordinate_by_parity_law (p : ℕ) [Fact p.Prime] (hp : p % 2 = 1) (y1 y2 : ℕ) (h1 : y1 < p) (h2 : y2 < p)
    (hsq : ((y1 : ZMod p)) ^ 2 = ((y2 : ZMod p)) ^ 2) (hpar : y1 % 2 = y2 % 2) : y1 = y2 := by
  rcases sq_eq_sq_iff_eq_or_eq_neg.mp hsq with h | h
  · have := (ZMod.natCast_eq_natCast_iff' y1 y2 p).mp h
    rwa [Nat.mod_eq_of_lt h1, Nat.mod_eq_of_lt h2] at this
  · have hz : ((y1 + y2 : ℕ) : ZMod p) = 0 := by
      push_cast
      rw [h]; ring
    have hd : p ∣ y1 + y2 := (ZMod.natCast_eq_zero_iff (y1 + y2) p).mp hz
    obtain ⟨k, hk⟩ := hd
    have hk2 : k < 2 := by
      by_contra hge
      have hge' : 2 ≤ k := by omega
      have : 2 * p ≤ p * k := by nlinarith
      omega
    interval_cases k
    · omega
    · omega
