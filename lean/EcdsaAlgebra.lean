/-
ECDSA algebra over an arbitrary additive commutative group in which the points involved are killed by n
(every point of a group of prime order n).  `smul k P` on the SMT side is `k • P`, `padd` is `+`.
Modular inverses are given by their defining congruences, exactly as the contracts of the SMT side state them.
-/
import Mathlib.Algebra.Group.Basic
import Mathlib.Algebra.Module.Basic
import Mathlib.Tactic

/-- a • P depends only on a modulo n when n • P = 0 -/
theorem zsmul_congr_mod {A : Type*} [AddCommGroup A] (P : A) (n : ℤ) (hP : n • P = 0) (a b : ℤ)
    (h : a % n = b % n) : a • P = b • P := by
  have ha : a = a % n + n * (a / n) := (Int.emod_add_mul_ediv a n).symm
  have hb : b = b % n + n * (b / n) := (Int.emod_add_mul_ediv b n).symm
  rw [ha, hb, add_zsmul, add_zsmul, mul_comm n (a / n), mul_comm n (b / n), mul_zsmul, mul_zsmul, hP, smul_zero, smul_zero, h]

/-- the signature (r, s) with s = k⁻¹ (z + (r d mod n)) mod n (as the code computes it) verifies under Q = d • G:  (z s⁻¹) • G + (r s⁻¹) • (d • G) = k • G -/
theorem sign_verifies {A : Type*} [AddCommGroup A] (G : A) (n : ℤ) (hG : n • G = 0)
    (k ki d z r s w : ℤ)
    (hk : (k * ki) % n = 1 % n) (hs : s = (ki * (z + (d * r) % n)) % n) (hw : (s * w) % n = 1 % n) :
    (z * w) • G + (r * w) • (d • G) = k • G := by
  rw [← mul_zsmul, ← add_zsmul]
  apply zsmul_congr_mod G n hG
  -- goal: (z*w + r*w*d) % n = k % n
  have h1 : (z * w + r * w * d) = w * (z + d * r) := by ring
  rw [h1]
  have e1 : (k * ki) ≡ 1 [ZMOD n] := hk
  have e2 : s ≡ ki * (z + d * r) [ZMOD n] := by
    rw [hs]
    exact (Int.mod_modEq _ n).trans (((Int.mod_modEq (d * r) n).add_left z).mul_left ki)
  have e3 : (s * w) ≡ 1 [ZMOD n] := hw
  have : w * (z + d * r) ≡ k [ZMOD n] := by
    calc w * (z + d * r) ≡ (k * ki) * (w * (z + d * r)) [ZMOD n] := by
            have := (e1.mul_right (w * (z + d * r))).symm
            simpa using this
      _ = k * (w * (ki * (z + d * r))) := by ring
      _ ≡ k * (w * s) [ZMOD n] := (e2.symm.mul_left w).mul_left k
      _ = k * (s * w) := by ring
      _ ≡ k * 1 [ZMOD n] := e3.mul_left k
      _ = k := by ring
  exact this

/-- public key recovery: Q = (s r⁻¹) • P + (-(r⁻¹ z)) • G satisfies the verification equation with nonce point P -/
theorem recover_verifies {A : Type*} [AddCommGroup A] (G P : A) (n : ℤ) (hG : n • G = 0) (hP : n • P = 0)
    (z r s w ri : ℤ) (hw : (s * w) % n = 1 % n) (hr : (r * ri) % n = 1 % n) :
    (z * w) • G + (r * w) • ((s * ri) • P + (-(ri * z)) • G) = P := by
  rw [smul_add, ← mul_zsmul, ← mul_zsmul, ← add_assoc, add_comm ((z * w) • G) _, add_assoc, ← add_zsmul]
  have e3 : (s * w) ≡ 1 [ZMOD n] := hw
  have e4 : (r * ri) ≡ 1 [ZMOD n] := hr
  have hPcoef : (r * w * (s * ri)) ≡ 1 [ZMOD n] := by
    calc r * w * (s * ri) = (s * w) * (r * ri) := by ring
      _ ≡ 1 * 1 [ZMOD n] := e3.mul e4
      _ = 1 := by ring
  have hGcoef : (z * w + r * w * -(ri * z)) ≡ 0 [ZMOD n] := by
    calc z * w + r * w * -(ri * z) = z * w * (1 - r * ri) := by ring
      _ ≡ z * w * (1 - 1) [ZMOD n] := ((Int.ModEq.refl 1).sub e4).mul_left (z * w)
      _ = 0 := by ring
  have h1 : (r * w * (s * ri)) • P = (1 : ℤ) • P := zsmul_congr_mod P n hP _ _ hPcoef
  have h2 : (z * w + r * w * -(ri * z)) • G = (0 : ℤ) • G := zsmul_congr_mod G n hG _ _ hGcoef
  rw [h1, h2, one_zsmul, zero_zsmul, add_zero]
