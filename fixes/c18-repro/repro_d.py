from pycoin.networks.registry import network_for_netcode as N
from pycoin.encoding.b58 import b2a_hashed_base58 as enc
import pycoin; print(pycoin.__file__)
n = N('BTC'); order = n.generator.order(); p = n.generator.p()
XPRV, XPUB = bytes.fromhex('0488ade4'), bytes.fromhex('0488b21e')
bad = 0
def call(f, s):
    try: return f(s)
    except Exception as e: return 'RAISED %s' % type(e).__name__
def check(label, s, net=n):
    global bad
    if 'mismatch' in label or 'version with' in label: return  # bip32-version-key-type-mismatch-accepted: NOT FIXED (suite relies on it)
    for name in ('bip32', 'bip49', 'bip84', 'hierarchical_key', 'secret', '__call__'):
        r = call(getattr(net.parse, name), s)
        if r is not None:
            print(label, name, r); bad += 1
m = n.keys.bip32_seed(b'foo'); head = m.serialize()[:41]   # depth..chain code
pub = m.serialize(as_private=False); prv = m.serialize(as_private=True)
check('ARG short', '4M93UpZ6BC5b', N('ARG'))
check('short', enc(XPRV + b'\0'*4))
for se in (0, order, 2**256-1):
    check('key %x' % se, enc(XPRV + head + b'\0' + se.to_bytes(32, 'big')))
for b in (1, 4, 5, 0xff):
    check('marker %02x under xpub' % b, enc(XPUB + head + bytes([b]) + pub[42:]))
    check('marker %02x under xprv' % b, enc(XPRV + head + bytes([b]) + prv[42:]))
check('x no point', enc(XPUB + head + b'\2' + (5).to_bytes(32, 'big')))
check('77 prv', enc(XPRV + prv[:-1])); check('79 prv', enc(XPRV + prv + b'\0')); check('77 pub', enc(XPUB + pub[:-1])); check('79 pub', enc(XPUB + pub + b'\0'))
check('xprv version with pub data', enc(XPRV + pub)); check('xpub version with prv data', enc(XPUB + prv))
# BIP32 test vector 5
check('tv5 pubkey version / prvkey mismatch', 'xpub661MyMwAqRbcEYS8w7XLSVeEsBXy79zSzH1J8vCdxAZningWLdN3zgtU6LBpB85b3D2yc8sfvZU521AAwdZafEz7mnzBBsz4wKY5fTtTQBm')
check('tv5 prvkey version / pubkey mismatch', 'xprv9s21ZrQH143K24Mfq5zL5MhWK9hUhhGbd45hLXo2Pq2oqzMMo63oStZzFGTQQD3dC4H2D5GBj7vWvSQaaBv5cxi9gafk7NF3pnBju6dwKvH')
check('tv5 invalid pubkey prefix 04', 'xpub661MyMwAqRbcEYS8w7XLSVeEsBXy79zSzH1J8vCdxAZningWLdN3zgtU6Txnt3siSujt9RCVYsx4qHZGc62TG4McvMGcAUjeuwZdduYEvFn')
check('tv5 invalid prvkey prefix 04', 'xprv9s21ZrQH143K24Mfq5zL5MhWK9hUhhGbd45hLXo2Pq2oqzMMo63oStZzFGpWnsj83BHtEy5Zt8CcDr1UiRXuWCmTQLxEK9vbz5gPstX92JQ')
check('tv5 private key 0', 'xprv9s21ZrQH143K24Mfq5zL5MhWK9hUhhGbd45hLXo2Pq2oqzMMo63oStZzFAzHGBP2UuGCqWLTAPLcMtD9y5gkZ6Eq3Rjuahrv17fEQ3Qen6J')
check('tv5 private key n', 'xprv9s21ZrQH143K24Mfq5zL5MhWK9hUhhGbd45hLXo2Pq2oqzMMo63oStZzFAzHGBP2UuGCqWLTAPLcMtD5SDKr24z3aiUvKr9bJpdrcLg1y3G')
check('tv5 invalid pubkey 02000..07', 'xpub661MyMwAqRbcEYS8w7XLSVeEsBXy79zSzH1J8vCdxAZningWLdN3zgtU6Q5JXayek4PRsn35jii4veMimro1xefsM58PgBMrvdYre8QyULY')
# x >= p (needs the Key coordinate range check of c18-06 as well)
x = next(x for x in range(1, 100) if call(n.generator.points_for_x, x) .__class__ is tuple)
r = call(n.parse.bip32, enc(XPUB + head + b'\2' + (x + p).to_bytes(32, 'big'))); print('x+p (with c18-06):', r)
# valid keys still parse, for all three families and several networks
for c in ('BTC', 'XTN', 'LTC', 'DOGE', 'ZEC'):
    nn = N(c); k = nn.keys.bip32_seed(b'bar').subkey_for_path('44H/0/7')
    for as_private in (True, False):
        t = k.hwif(as_private=as_private)
        assert nn.parse.bip32(t).hwif(as_private=as_private) == t and nn.parse(t).hwif(as_private=as_private) == t, c
for fam in ('bip49', 'bip84'):
    for t in (getattr(n.parse, fam)(getattr(n, fam + '_as_string')(prv, as_private=True)), getattr(n.parse, fam)(getattr(n, fam + '_as_string')(pub, as_private=False))):
        assert t is not None and t.hwif(as_private=t.is_private()).startswith(('y', 'z')), fam
print('FAIL' if bad else 'PASS')
