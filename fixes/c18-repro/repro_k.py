from pycoin.networks.registry import network_for_netcode as N
from pycoin.message.PeerAddress import PeerAddress
import pycoin; print(pycoin.__file__)
n = N('BTC')
a = PeerAddress(1, b'\x7f\0\0\1', 8333)
base = dict(version=70015, services=1, timestamp=1700000000, remote_address=a, local_address=a, nonce=5, subversion=b'/x/', last_block_index=7)
bad = 0
sizes = {}
for relay in (True, False, None):
    b = n.message.pack('version', relay=relay, **base); sizes[relay] = len(b)
    got = n.message.parse('version', b)['relay']
    print('relay=%r -> wire tail %r -> parsed %r' % (relay, b[-2:].hex(), got)); bad += got is not relay
assert sizes[None] + 1 == sizes[True] == sizes[False]
b = n.message.pack('version', relay=None, **base)
assert n.message.parse('version', b + b'\x02')['relay'] is True   # any non-zero byte, as the 'b' codec
d = n.message.parse('version', n.message.pack('version', relay=True, **base)); assert d['nonce'] == 5 and d['last_block_index'] == 7
print('FAIL' if bad else 'PASS')
