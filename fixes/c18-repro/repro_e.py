from pycoin.networks.registry import network_for_netcode as N
import pycoin; print(pycoin.__file__)
n = N('BTC'); p = n.generator.p(); Gx, Gy = n.generator
bad = 0
def call(f, s):
    try: return f(s)
    except Exception as e: return 'RAISED %s' % type(e).__name__
for s in ('5/even', '5/odd', '5,even', '0x5/odd'):
    for name in ('public_pair', 'public_key'):
        r = call(getattr(n.parse, name), s); print(s, name, r); bad += r is not None
print('-- coordinate >= p (needs c18-06 too)')
bad2 = 0
for s in ('%d/%d' % (Gx + p, Gy), '%d/%d' % (Gx, Gy + p), '%d/even' % (Gx + p), '%d/%d' % (Gx + 2**256, Gy)):
    r = call(n.parse.public_key, s)
    t = call(lambda k: k.as_text(), r) if r is not None and not isinstance(r, str) else None
    print(s[:20], '->', r if r is None or isinstance(r, str) else 'Key', 'as_text:', t); bad2 += r is not None
# valid
for s in ('%d/%d' % (Gx, Gy), '%d,%d' % (Gx, Gy), '%x/even' % Gx, '%d/even' % Gx, '%d/odd' % Gx):
    k = n.parse.public_key(s); assert k.public_pair()[0] == Gx and n.parse.public_pair(s).as_text() == k.as_text()
k = n.parse.public_key('%d/odd' % Gx); assert k.public_pair() == (Gx, p - Gy)
print('NoSuchPoint:', 'FAIL' if bad else 'PASS', ' range:', 'FAIL' if bad2 else 'PASS')
