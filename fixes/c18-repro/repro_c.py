from pycoin.networks.registry import network_for_netcode as N
from pycoin.encoding.b58 import b2a_hashed_base58 as enc
import pycoin; print(pycoin.__file__)
n = N('BTC'); order = n.generator.order()
bad = 0
def call(f, s):
    try: return f(s)
    except Exception as e: return 'RAISED %s' % type(e).__name__
r = call(N('ARG').parse.private_key, '64XQe1mpgF8CMskVtXit2RXwHDzSALFDpWhFqcsN6x1ZWvqBSda'); print('ARG', r); bad += r is not None
for se in (0, order, 2**256-1):
    for tail in (b'', b'\x01'):
        s = enc(b'\x80' + se.to_bytes(32, 'big') + tail)
        for name in ('wif', 'private_key', 'secret', '__call__'):
            r = call(getattr(n.parse, name), s); print(hex(se)[:12], len(tail), name, r); bad += r is not None
for se in (1, order-1):
    for comp in (True, False):
        k = n.keys.private(se, is_compressed=comp)
        assert n.parse.wif(k.wif()).secret_exponent() == se and n.parse(k.wif()).wif() == k.wif()
print('FAIL' if bad else 'PASS')
