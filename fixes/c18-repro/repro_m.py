from pycoin.networks.registry import network_for_netcode as N
import pycoin; print(pycoin.__file__)
n = N('BTC'); Tx = n.tx; TxIn, TxOut = Tx.TxIn, Tx.TxOut
Z = b'\0'*32
out = [TxOut(1000, b'\x51')]
bad = 0
def check(tx):
    try: tx.check(); return 'ok'
    except Exception as e: return '%s(%s)' % (type(e).__name__, e)
def expect(label, got, want):
    global bad
    print('%-62s %-45s %s' % (label, got, 'ok' if got == want else 'WRONG, want ' + str(want))); bad += got != want
# null outpoint = zero hash AND index 0xffffffff (COutPoint::IsNull)
expect('TxIn(0,0xffffffff).is_coinbase()', TxIn(Z, 0xffffffff).is_coinbase(), True)
expect('TxIn(0,0).is_coinbase()', TxIn(Z, 0).is_coinbase(), False)
expect('TxIn(0,5).is_coinbase()', TxIn(Z, 5).is_coinbase(), False)
expect('TxIn(1,0xffffffff).is_coinbase()', TxIn(b'\1'*32, 0xffffffff).is_coinbase(), False)
t = Tx(1, [TxIn(Z, 0, b'\x51')], out)
expect('Tx with single input 0:0 is_coinbase()', t.is_coinbase(), False)
expect('  check() (1-byte script: a coinbase would be refused)', check(t), 'ok')
t = Tx(1, [TxIn(Z, 0xffffffff, b'\x51')], out)
expect('coinbase with 1-byte script check()', check(t), 'ValidationFailureError(bad coinbase script size)')
expect('coinbase with 2-byte script check()', check(Tx(1, [TxIn(Z, 0xffffffff, b'\x51\x51')], out)), 'ok')
expect('two inputs, one null: check()', check(Tx(1, [TxIn(b'\1'*32, 0), TxIn(Z, 0xffffffff)], out)), 'ValidationFailureError(prevout is null)')
expect('two inputs, one 0:0 (not null): check()', check(Tx(1, [TxIn(b'\1'*32, 0), TxIn(Z, 0)], out)), 'ok')
expect('coinbase_tx().is_coinbase()', Tx.coinbase_tx(n.keys.private(1).sec(), 50).is_coinbase(), True)
# unspents_from_db / validate_unspents keep working for a real coinbase and a spend of it
cb = Tx.coinbase_tx(n.keys.private(1).sec(), 5000)
sp = Tx(1, [TxIn(cb.hash(), 0)], [TxOut(4000, b'\x51')])
db = {cb.hash(): cb}
sp.unspents_from_db(db); expect('spend.validate_unspents(db)', sp.validate_unspents(db), 1000)
cb.unspents_from_db(db); expect('coinbase.unspents_from_db -> [None]', cb.unspents, [None])
expect('coinbase.validate_unspents(db) (fee)', cb.validate_unspents(db), 0)
z = Tx(1, [TxIn(Z, 0)], [TxOut(1, b'\x51')]); z.set_unspents([TxOut(5, b'\x51')])
try: r = 'returned %r' % z.validate_unspents(db)
except KeyError as e: r = 'KeyError'
expect('validate_unspents of input 0:0 (unknown tx, not coinbase)', r, 'KeyError')
print('FAIL' if bad else 'PASS')
