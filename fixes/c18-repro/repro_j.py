from pycoin.networks.registry import network_for_netcode as N
import pycoin, struct; print(pycoin.__file__)
n = N('BTC')
try:
    ids = [0, 1, 0xffffffff, 2**32, 2**32 + 1, 2**47, 2**48 - 1, 0x0102030405ff]
    b = n.message.pack('cmpctblock', header_hash=b'\0'*32, nonce=0, short_ids=ids, prefilled_txs=[])
    want = b'\0'*32 + b'\0'*8 + bytes([len(ids)]) + b''.join(i.to_bytes(6, 'little') for i in ids) + b'\0'
    assert b == want, b.hex()
    d = n.message.parse('cmpctblock', b)
    assert list(d['short_ids']) == ids and d['nonce'] == 0 and list(d['prefilled_txs']) == [], d
    for v in (2**48, -1, 2**64):
        try: n.message.pack('cmpctblock', header_hash=b'\0'*32, nonce=0, short_ids=[v], prefilled_txs=[]); raise AssertionError('packed %d' % v)
        except struct.error: pass
    try: n.message.parse('cmpctblock', want[:-3]); raise AssertionError('short read parsed')
    except struct.error: pass
    print('PASS')
except Exception as e:
    print('FAIL', type(e).__name__, e)
