from pycoin.networks.registry import network_for_netcode as N
import pycoin; print(pycoin.__file__)
n = N('BTC'); order = n.generator.order(); Gx, Gy = n.generator
bad = 0
def call(f, s):
    try: return f(s)
    except Exception as e: return 'RAISED %s' % type(e).__name__
for s in ('E:' + '00'*32, 'E:%064x' % order, 'E:' + 'ff'*32):
    for name in ('electrum_prv', 'hierarchical_key', 'secret', '__call__'):
        r = call(getattr(n.parse, name), s); print(s[:12], name, r); bad += r is not None
for s in ('E:' + '00'*64, 'E:%064x%064x' % (Gx, Gy + 1), 'E:' + 'ff'*64):
    for name in ('electrum_pub', 'hierarchical_key', 'secret', '__call__'):
        r = call(getattr(n.parse, name), s); print(s[:12], name, r); bad += r is not None
k = n.parse.electrum_prv('E:%064x' % 1); assert k.secret_exponent() == 1
k = n.parse.electrum_prv('E:%064x' % (order - 1)); assert k.secret_exponent() == order - 1
k = n.parse.electrum_pub('E:%064x%064x' % (Gx, Gy)); assert k.public_pair() == (Gx, Gy) and n.parse('E:%064x%064x' % (Gx, Gy)).public_pair() == (Gx, Gy)
print('FAIL' if bad else 'PASS')
