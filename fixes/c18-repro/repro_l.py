from pycoin.networks.registry import network_for_netcode as N
from pycoin.coins.bitcoin.Spendable import Spendable
import pycoin, io; print(pycoin.__file__)
try:
    for sp in (Spendable(12345, b'\x76\xa9\x14' + b'\x11'*20 + b'\x88\xac', bytes(range(32)), 3, 700000, True, 700001),
               Spendable(0, b'', b'\0'*32, 0), Spendable(2**64 - 1, b'\x51'*300, b'\xff'*32, 0xffffffff, 1, False, 0)):
        b = sp.as_bin(as_spendable=True)
        assert b == sp.as_bin() + sp.tx_hash + sp.tx_out_index.to_bytes(4, 'little') + (b[len(sp.as_bin()) + 36:])
        sp2 = Spendable.from_bin(b)
        assert sp2.as_dict() == sp.as_dict() and sp2.as_text() == sp.as_text() and sp2.as_bin(as_spendable=True) == b, (sp, sp2)
        f = io.BytesIO(); sp.stream(f, as_spendable=True); assert f.getvalue() == b
        assert Spendable.from_text(sp.as_text()).as_bin(as_spendable=True) == b and Spendable.from_dict(sp.as_dict()).as_bin(as_spendable=True) == b
    # via a tx
    tx = N('BTC').tx.coinbase_tx(N('BTC').keys.private(1).sec(), 5000)
    for sp in tx.tx_outs_as_spendable(block_index_available=9):
        assert Spendable.from_bin(sp.as_bin(as_spendable=True)).as_dict() == sp.as_dict()
    assert sp.as_bin() == tx.txs_out[-1].as_bin() if hasattr(tx.txs_out[-1], 'as_bin') else True
    print('PASS')
except Exception as e:
    print('FAIL', type(e).__name__, e)
