from pycoin.networks.registry import network_for_netcode as N
import pycoin; print(pycoin.__file__)
n = N('BTC'); C = n.contract
h = b'\x11'*20; h32 = b'\x22'*32
G = n.keys.private(1).sec(); G2 = n.keys.private(2).sec(); GU = n.keys.private(1).sec(is_compressed=False)
def pd(d, m):
    return {1: b'\x4c' + bytes([len(d)]), 2: b'\x4d' + len(d).to_bytes(2, 'little'), 4: b'\x4e' + len(d).to_bytes(4, 'little')}[m] + d
bad = 0
def chk(label, script):
    global bad
    info = C.info_for_script(script); t = info['type']
    ok = t == 'unknown' or C.for_info(info) == script
    if not ok: bad += 1
    print('%-45s %-9s %s' % (label, t, 'ok' if ok else 'MISLABELLED (rebuilt %s)' % C.for_info(info).hex()[:24]))
for m in (1, 2, 4):
    chk('p2pkh pushdata%d' % m, b'\x76\xa9' + pd(h, m) + b'\x88\xac')
    chk('p2sh pushdata%d' % m, b'\xa9' + pd(h, m) + b'\x87')
    chk('p2wpkh pushdata%d' % m, b'\x00' + pd(h, m))
    chk('p2wsh pushdata%d' % m, b'\x00' + pd(h32, m))
    chk('p2tr pushdata%d' % m, b'\x51' + pd(h32, m))
    chk('p2pk pushdata%d' % m, pd(G, m) + b'\xac')
    chk('multisig key pushdata%d' % m, b'\x51' + pd(G, m) + b'\x51\xae')
assert C.match("OP_DUP OP_HASH160 'PUBKEYHASH' OP_EQUALVERIFY OP_CHECKSIG", bytes.fromhex('76a94c14' + h.hex() + '88ac')) is None or bad
chk('multisig n=OP_NOP(17 keys)', b'\x51' + b''.join(b'\x21' + n.keys.private(i).sec() for i in range(1, 18)) + b'\x61\xae')
chk('multisig n=OP_1NEGATE', b'\x51' + b'\x4f\xae')
chk('multisig n=OP_RESERVED(0x50) 0 keys', b'\x51\x50\xae')
# standard ones unchanged
std = {'p2pkh': C.for_p2pkh(h), 'p2sh': C.for_p2sh(h), 'p2pkh_wit': C.for_p2pkh_wit(h), 'p2sh_wit': C.for_p2sh_wit(h32), 'p2tr': C.for_p2tr(h32),
       'p2pk': C.for_p2pk(G), 'p2pk ': C.for_p2pk(GU), 'multisig': C.for_multisig(1, [G, G2]), 'multisig ': C.for_multisig(2, [G, GU, G2]),
       'multisig  ': C.for_multisig(15, [n.keys.private(i).sec() for i in range(1, 17)]), 'nulldata': C.for_nulldata(b'hello')}
for t, sc in std.items():
    info = C.info_for_script(sc); assert info['type'] == t.strip() and C.for_info(info) == sc, t
# a 76..120-byte "pubkey" legitimately uses OP_PUSHDATA1
sc = pd(b'\x02' * 80, 1) + b'\xac'; info = C.info_for_script(sc); assert info['type'] == 'p2pk' and C.for_info(info) == sc
print('FAIL' if bad else 'PASS')
