from pycoin.networks.registry import network_for_netcode as N
import pycoin; print(pycoin.__file__)
bad = 0
def call(f, s):
    try: return f(s)
    except Exception as e: return 'RAISED %s' % type(e).__name__
for c in ('BTC', 'XTN', 'LTC', 'ARG', 'POLIS'):
    n = N(c)
    for comp in (True, False):
        k = n.keys.private(7, is_compressed=comp).public_copy(); t = k.as_text()
        for name in ('sec', 'public_key'):
            r = call(getattr(n.parse, name), t)
            ok = r is not None and not isinstance(r, str) and r.public_pair() == k.public_pair() and r.is_compressed() == comp and r.as_text() == t
            print(c, t[:24], name, 'ok' if ok else r); bad += not ok
        # bare hex keeps working, foreign prefix refused
        assert n.parse.sec(k.sec().hex()).as_text() == t
        assert n.parse.sec('NOPE:' + k.sec().hex()) is None
print('FAIL' if bad else 'PASS')
