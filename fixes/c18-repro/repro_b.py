from pycoin.networks.registry import network_for_netcode as N
from pycoin.encoding.b58 import b2a_hashed_base58 as enc
import pycoin; print(pycoin.__file__)
n = N('BTC'); pre = b'\x80'
bad = 0
r = N('POLIS').parse.wif('RUuhAwxRGzMCCCanYuZmmt6eZJ3nxrZkWy'); print('POLIS p2sh-as-wif', r); bad += r is not None
for label, payload in [('31 bytes', b'\x01'*31), ('34 bytes', b'\x01'*32 + b'\x01\x01'), ('33 bytes flag 00', b'\x01'*32 + b'\x00'), ('33 bytes flag 02', b'\x01'*32 + b'\x02'), ('0 bytes', b''), ('64 bytes', b'\x01'*64)]:
    r = n.parse.wif(enc(pre + payload)); print(label, r); bad += r is not None
for c in ['BTC','XTN','POLIS','LTC','ZEC']:
    m = N(c)
    for comp in (True, False):
        k = m.keys.private(0xdeadbeef, is_compressed=comp)
        k2 = m.parse.wif(k.wif())
        assert k2.secret_exponent() == 0xdeadbeef and k2.is_compressed() == comp and k2.wif() == k.wif()
print('FAIL' if bad else 'PASS')
