from pycoin.networks.registry import network_for_netcode as N
import pycoin; print(pycoin.__file__)
bad = 0
def call(f, s):
    try: return f(s)
    except Exception as e: return 'RAISED %s' % type(e).__name__
for c in ('ARG', 'BTC'):
    for s in (':', 'P:foo', 'H:00ff', 'a:b', 'H:zz', 'nocolon'):
        r = call(N(c).parse.hd_seed, s); print(c, repr(s), r); bad += r is not None
print('FAIL' if bad else 'PASS')
