from pycoin.networks.registry import network_for_netcode as N
import pycoin; print(pycoin.__file__)
k = N('POLIS').keys.private(12345)
cases = [('ARG','36cYQuJb4S57XaaXiP8Kqgi2hEodn4wce'),('ARG','dDc8z6'),('ZEC','CZFrnCDbJpYZ7UQcMcqWJm5T9Q4RhTQkkP'),('PIVX','1A95PuBGxZNJqNxum4KPJgqdEQj1t6xh8S'),('CHC','kz6zzAyeTR'),('POLIS',k.wif()),('POLIS',k.wif(is_compressed=False))]
bad = 0
for c,a in cases:
    r = N(c).parse.address(a)
    print(c, a, r); bad += r is not None
# good ones still parse
for c in ['BTC','ZEC','ARG','PIVX','CHC','POLIS','XTN','LTC']:
    n=N(c); a=n.address.for_p2pkh(b'\x11'*20); b=n.address.for_p2sh(b'\x22'*20)
    assert n.parse.address(a).address()==a and n.parse.p2pkh(a).info()['type']=='p2pkh', c
    assert n.parse.address(b).address()==b and n.parse.p2sh(b).info()['type']=='p2sh', c
print('FAIL' if bad else 'PASS')
