"""PYVC_REPO=<tree> python3 c10_der_fuzz.py : exception types of sigdecode_der (both modes) over malformed blobs"""
import os, sys, random, collections
sys.path.insert(0, os.environ.get("PYVC_REPO", "/repo"))
from pycoin.satoshi.der import sigdecode_der, sigencode_der, UnexpectedDER
rng = random.Random(1)
blobs = [b"", b"\x30", b"\x30\x00", b"\x30\x02\x02\x00", b"\x30\x04\x02\x00\x02\x00", bytes.fromhex("3006020002010100")[:7],
         bytes.fromhex("30060201010200"), bytes.fromhex("3046020101020101"), bytes.fromhex("3006028001020101"),
         bytes.fromhex("300602810002010101"), bytes.fromhex("30800201010201010000"), bytes.fromhex("3081"), bytes.fromhex("308100"),
         bytes.fromhex("30060280020101"), bytes.fromhex("3003020080")]
good = [sigencode_der(rng.randrange(1, 2**rng.randrange(1, 257)), rng.randrange(1, 2**rng.randrange(1, 257))) for _ in range(300)]
for e in good:
    for cut in range(len(e)):
        blobs.append(e[:cut])
    for _ in range(40):
        b = bytearray(e)
        for _ in range(rng.randrange(1, 3)):
            b[rng.randrange(min(len(b), 8))] = rng.choice((0, 1, 2, 0x30, 0x7f, 0x80, 0x81, 0x82, 0x84, 0xff, rng.randrange(256)))
        blobs.append(bytes(b))
for ln in range(0, 12):
    for _ in range(3000):
        blobs.append(bytes(rng.choice((0, 1, 2, 3, 0x30, 0x80, 0x81, 0x82, 0xff, rng.randrange(256))) for _ in range(ln)))
res = {}
for strict in (True, False):
    c = collections.Counter()
    ex_sample = {}
    for b in set(blobs):
        try:
            r = sigdecode_der(b, use_broken_open_ssl_mechanism=not strict)
            c["ok"] += 1
            res[(strict, b)] = r
        except Exception as ex:
            c[type(ex).__name__] += 1
            ex_sample.setdefault(type(ex).__name__, (b.hex(), str(ex)))
            res[(strict, b)] = type(ex).__name__
    print("strict" if strict else "lax", dict(c))
    for k, v in ex_sample.items():
        if k != "UnexpectedDER":
            print("    e.g.", k, v)
if len(sys.argv) > 1:
    import pickle
    pickle.dump(res, open(sys.argv[1], "wb"))
print("3046020101020101 strict ->", res.get((True, bytes.fromhex("3046020101020101"))), " lax ->", res.get((False, bytes.fromhex("3046020101020101"))))
