"""reproducers for the c15 fix patches:  PYVC_REPO=<tree> python3 c15_repro.py   (prints OK/FAIL per defect)"""
import os
import sys
sys.path.insert(0, os.environ.get("PYVC_REPO", "/repo"))
from pycoin.blockchain.BlockChain import BlockChain  # noqa


class H:
    def __init__(s, h, p, w=1):
        s.h, s.previous_block_hash, s.difficulty = h, p, w

    def hash(s):
        return s.h

    def __repr__(s):
        return "H(%r)" % (s.h,)


def chain(bc):
    return [bc.hash_for_index(i) for i in range(bc.length())]


def show(name, got, want):
    print("%-4s %s: got %r want %r" % ("OK" if got == want else "FAIL", name, got, want))


# A1 meld strands the orphan subtree
bc = BlockChain(1000, {})
bc.add_headers([H(3, 2, 2)])
bc.add_headers([H(1, 2, 1), H(2, 1000, 1)])
show("A1 meld", chain(bc), [2, 3])

# A2 re-delivered locked header
bc = BlockChain(1000, {})
bc.add_headers([H(1, 1000)])
bc.lock_to_index(1)
bc.add_headers([H(2, 1), H(1, 1000)])
show("A2 relocked", chain(bc), [1, 2])

# A3 lock switches between tied tips
bc = BlockChain(1000, {})
bc.add_headers([H(3, 1000, 2), H(11, 3, 1), H(19, 3, 1)])
before = chain(bc)
bc.lock_to_index(1)
show("A3 lock tie (chain)", chain(bc), before)
show("A3 lock tie (index_for_hash)", [bc.index_for_hash(h) for h in chain(bc)], [0, 1])
