"""PYVC_REPO=<tree> python3 c10_sec_repro.py : SEC blobs with a coordinate >= p must be refused (EncodingError)"""
import os, sys
sys.path.insert(0, os.environ.get("PYVC_REPO", "/repo"))
from pycoin.encoding.sec import sec_to_public_pair, EncodingError
from pycoin.symbols.btc import network as n
g = n.generator
P = g.p()
GX, GY = g
x = 0
while 1:          # smallest x with a point: x + p still fits in 32 bytes
    x += 1
    try:
        y = g.points_for_x(x)[0][1]
        break
    except ValueError:
        pass
cases = [("02 x+p", bytes([2 + (y & 1)]) + (x + P).to_bytes(32, "big"), False),
         ("03 x+p", bytes([3 - (y & 1)]) + (x + P).to_bytes(32, "big"), False),
         ("04 x+p", b"\4" + (x + P).to_bytes(32, "big") + y.to_bytes(32, "big"), False),
         ("06/07 x+p lax", bytes([6 + (y & 1)]) + (x + P).to_bytes(32, "big") + y.to_bytes(32, "big"), False),
         ("04 y=2^256-1", b"\4" + GX.to_bytes(32, "big") + b"\xff" * 32, False),
         ("04 ff*64", b"\4" + b"\xff" * 64, False),
         ("02 x valid", bytes([2 + (y & 1)]) + x.to_bytes(32, "big"), True),
         ("04 x valid", b"\4" + x.to_bytes(32, "big") + y.to_bytes(32, "big"), True),
         ("04 G", b"\4" + GX.to_bytes(32, "big") + GY.to_bytes(32, "big"), True),
         ("02 x=p-1..", b"\2" + (P - 3).to_bytes(32, "big"), None)]
for name, blob, want in cases:
    for strict in (True, False):
        try:
            r = sec_to_public_pair(blob, g, strict=strict)
            got = True
        except EncodingError as ex:
            got = False
        except ValueError as ex:
            got = "ValueError(no point)"
        ok = want is None or got == want
        print("%-4s %-14s strict=%-5s accepted=%s" % ("OK" if ok else "FAIL", name, strict, got))
