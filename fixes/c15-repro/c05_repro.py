"""PYVC_REPO=<tree> python3 c05_repro.py : sign bare m-of-m multisig (and P2SH / P2WSH forms) for m around 10"""
import os
import sys
sys.path.insert(0, os.environ.get("PYVC_REPO", "/repo"))
from pycoin.symbols.btc import network  # noqa
from pycoin.solve.utils import build_hash160_lookup, build_p2sh_lookup  # noqa

Tx, Key = network.tx, network.keys.private
script_for = network.contract


def attempt(m, kind):
    keys = [Key(secret_exponent=i) for i in range(1, m + 1)]
    ms = script_for.for_multisig(m, [k.sec() for k in keys])
    if kind == "bare":
        puzzle, p2sh = ms, None
    elif kind == "p2sh":
        puzzle, p2sh = script_for.for_p2s(ms), build_p2sh_lookup([ms])
    else:
        puzzle, p2sh = script_for.for_p2s_wit(ms), build_p2sh_lookup([ms])
    coinbase = Tx.coinbase_tx(keys[0].sec(), 50000)
    coinbase.txs_out[0].script = puzzle
    tx = network.tx_utils.create_tx(coinbase.tx_outs_as_spendable(), [keys[0].address()])
    kw = {"p2sh_lookup": p2sh} if p2sh else {}
    tx.sign(build_hash160_lookup([k.secret_exponent() for k in keys], [network.generator]), **kw)
    return tx.bad_solution_count()


for kind in ("bare", "p2sh", "p2wsh"):
    for m in (8, 9, 10, 11, 12, 15):
        try:
            bad = attempt(m, kind)
        except Exception as ex:
            bad = "%s: %s" % (type(ex).__name__, ex)
        print("%-4s %s %d-of-%d bad_solution_count=%s" % ("OK" if bad == 0 else "FAIL", kind, m, m, bad))
