"""usage: PYVC_REPO=<clone> python3-vt -B /tmp/c03_repro.py [defect ids...]
prints, for each reproducer, the verdict of the spec (Core) and of pycoin (from PYVC_REPO)"""
import os, sys
sys.path[:0] = ['/verif', os.environ['PYVC_REPO']]
import pycoin
assert pycoin.__file__.startswith(os.environ['PYVC_REPO']), pycoin.__file__
import contracts.c03_bounded as m
cs = m.cs
H = bytes.fromhex

P2SH, STRICTENC, DERSIG, LOW_S, NULLDUMMY, SIGPUSHONLY, MINIMALDATA = cs.F_P2SH, cs.F_STRICTENC, cs.F_DERSIG, cs.F_LOW_S, cs.F_NULLDUMMY, cs.F_SIGPUSHONLY, cs.F_MINIMALDATA
CLEANSTACK, CLTV, CSV, WITNESS, WPK = cs.F_CLEANSTACK, cs.F_CHECKLOCKTIMEVERIFY, cs.F_CHECKSEQUENCEVERIFY, cs.F_WITNESS, cs.F_WITNESS_PUBKEYTYPE

OKS = []


def ev(desc, script, stack, flags=0, ctx=m.CTX_DEFAULT, chk=m.CHK_DEFAULT):
    s_ok, s_err, s_stack = cs.eval_script(list(stack), script, flags, chk, cs.SIGVERSION_BASE)
    p_kind, p_data = m.pycoin_eval(script, list(stack), flags, m.pycoin_synth_sighash_f, ctx)
    agree = (p_kind == "ok") == s_ok and (not s_ok or p_data == s_stack)
    OKS.append(agree)
    print("  %-5s %s\n        Core: %s %s\n        pycoin: %s %s" % (
        "AGREE" if agree else "DIFF", desc, s_err, [x.hex() for x in s_stack] if s_ok else "",
        p_kind, [x.hex() for x in p_data] if p_kind == "ok" else p_data))


def spend(desc, script_sig, spk, witness, flags, sp=None):
    if sp is None:
        sp = m.Spend(spk)
        sp.script_sig, sp.witness = script_sig, list(witness)
    stx = sp.spec_tx()
    chk = cs.TransactionChecker(stx, sp.idx, sp.amount)
    s_ok, s_err = cs.verify_script(sp.script_sig, sp.script_pubkey, sp.witness, flags, chk)
    p_kind, p_data = m.pycoin_check(sp.pycoin_tx(), sp.idx, flags)
    agree = (p_kind == "ok") == s_ok
    OKS.append(agree)
    print("  %-5s %s\n        Core: %s\n        pycoin: %s %s" % ("AGREE" if agree else "DIFF", desc, s_err, p_kind, p_data))


def d1():
    ev("0NOTEQUAL [''] MINIMALDATA", H('92'), [b''], MINIMALDATA)
    ev("0NOTEQUAL [01] MINIMALDATA", H('92'), [b'\x01'], MINIMALDATA)
    ev("0NOTEQUAL [05] MINIMALDATA", H('92'), [b'\x05'], MINIMALDATA)
    ev("0NOTEQUAL [81] MINIMALDATA", H('92'), [b'\x81'], MINIMALDATA)
    ev("0NOTEQUAL [00] MINIMALDATA (non-minimal)", H('92'), [b'\x00'], MINIMALDATA)
    ev("0NOTEQUAL [0100] MINIMALDATA (non-minimal)", H('92'), [b'\x01\x00'], MINIMALDATA)
    ev("0NOTEQUAL [80]", H('92'), [b'\x80'], 0)
    ev("0NOTEQUAL [05]", H('92'), [b'\x05'], 0)


def d2():
    ev("0NOTEQUAL [0000008000]", H('92'), [H('0000008000')], 0)
    ev("0NOTEQUAL [00000080]", H('92'), [H('00000080')], 0)
    ev("0NOTEQUAL [ffffff7f]", H('92'), [H('ffffff7f')], 0)


def d3():
    for v in ('00', '80', '0000', '0080', '', '01', '0001', '81'):
        ev("IFDUP [%s]" % v, H('73'), [H(v)], 0)


def d4():
    ev("WITHIN [a0,'',0000008000]", H('a5'), [H('a0'), b'', H('0000008000')], 0)
    ev("WITHIN [0000008000,'',05]", H('a5'), [H('0000008000'), b'', H('05')], 0)
    ev("WITHIN ['',0000008000,05]", H('a5'), [b'', H('0000008000'), H('05')], 0)
    ev("WITHIN [03,01,05]", H('a5'), [H('03'), H('01'), H('05')], 0)
    ev("WITHIN [ffffff7f,ffffffff,ffffff7f]", H('a5'), [H('ffffff7f'), H('ffffffff'), H('ffffff7f')], 0)


def d5():
    for op in ('79', '7a'):
        ev("%s [a0, 0000000000]" % op, H(op), [H('a0'), H('0000000000')], 0)
        ev("%s [a0, 00000000]" % op, H(op), [H('a0'), H('00000000')], 0)
        ev("%s [a0, b0, 01]" % op, H(op), [H('a0'), H('b0'), H('01')], 0)
        ev("%s [a0, 0100000080] (negative 5 bytes)" % op, H(op), [H('a0'), H('0100000080')], 0)


def d6():
    for n in (75, 76, 255, 256, 257, 520):
        ev("PUSHDATA2 %d bytes MINIMALDATA" % n, H('4d') + n.to_bytes(2, 'little') + b'\x2a' * n, [], MINIMALDATA)
    for n in (75, 76, 255):
        ev("PUSHDATA1 %d bytes MINIMALDATA" % n, H('4c') + bytes([n]) + b'\x2a' * n, [], MINIMALDATA)
    for n in (255, 256, 520):
        ev("PUSHDATA4 %d bytes MINIMALDATA" % n, H('4e') + n.to_bytes(4, 'little') + b'\x2a' * n, [], MINIMALDATA)
    ev("PUSHDATA2 256 bytes no flag", H('4d0001') + b'\x2a' * 256, [], 0)


def _sigcases(kinds, keys=("comp",), flagsets=(0, LOW_S, STRICTENC, DERSIG)):
    code = H('ac')
    for sk in kinds:
        for kk in keys:
            for fl in flagsets:
                sig = m.make_sig(sk, 0, code, 1)
                ev("CHECKSIG sig=%s key=%s flags=%s" % (sk, kk, m._flag_names(fl)), code, [sig, m.make_key(kk, 0)], fl)


def d7():
    _sigcases(("mid_s", "valid", "high_s"), flagsets=(0, LOW_S))
    key, sig = m.mid_s_valid_material(H('ac'))
    ev("CHECKSIG valid signature with s=n//2+1, LOW_S", H('ac'), [sig, key], LOW_S)
    ev("CHECKSIG valid signature with s=n//2+1, no flag", H('ac'), [sig, key], 0)
    # s = n//2 exactly is low
    from contracts.c03_bounded import _der, _N
    ev("CHECKSIG s = n//2 (low, invalid sig) LOW_S", H('ac'), [_der(5, _N // 2) + b'\x01', m.make_key("comp", 0)], LOW_S)
    ev("CHECKSIG s = n//2+1 LOW_S", H('ac'), [_der(5, _N // 2 + 1) + b'\x01', m.make_key("comp", 0)], LOW_S)


def d19():
    _sigcases(("overflow_s", "overflow_r", "zero_s"), flagsets=(0, LOW_S))


def d8():
    spk = H('a975515161616161616161616161616161616161616187')
    spend("23-byte HASH160 DROP 1 1 NOP*18 EQUAL, scriptSig 0, P2SH", H('00'), spk, [], P2SH)
    redeem = H('51')
    spend("true P2SH of OP_1", cs.push_data(redeem), m._p2sh(redeem), [], P2SH)
    spend("true P2SH of OP_0 (must fail)", cs.push_data(H('00')), m._p2sh(H('00')), [], P2SH)


def _wsh_multisig(n_keys, total=None):
    pubs = [cs.pubkey_bytes(cs.ec_mul(1000 + i), True) for i in range(n_keys)]
    ws = m._multisig(1, pubs)
    sp = m.Spend(m._p2wsh(ws))
    sig = sp.sign(1000, ws, cs.SIGVERSION_WITNESS_V0)
    sp.witness = [b'', sig, ws]
    return sp, ws


def d9():
    sp, ws = _wsh_multisig(16)
    spend("1-of-16 multisig P2WSH (witness script %d bytes)" % len(ws), None, None, None, P2SH | WITNESS, sp)
    sp, ws = _wsh_multisig(3)
    spend("1-of-3 multisig P2WSH (witness script %d bytes)" % len(ws), None, None, None, P2SH | WITNESS, sp)
    for n in (520, 521, 10000, 10001):
        ws = H('51') + b'\x61' * (n - 1)
        if n > 300:
            ws = b'\x61' * 150 + H('51')           # op count limit: pad with pushes+drops instead
            pad = n - len(ws)
            body = b''
            while pad > 0:
                k = min(pad, 523)
                if k < 4:
                    body += b'\x61' * k
                    pad -= k
                    continue
                if pad - k in (1, 2, 3):
                    k -= 4
                d = k - 4
                body += H('4d') + d.to_bytes(2, 'little') + b'\x2a' * d + H('75')
                pad -= k
            ws = body + ws
        assert len(ws) == n, (len(ws), n)
        spend("P2WSH with a %d-byte witness script" % n, b'', m._p2wsh(ws), [ws], P2SH | WITNESS)
    ws = H('7551')
    spend("P2WSH DROP 1 with a 520-byte witness item", b'', m._p2wsh(ws), [b'\x2a' * 520, ws], P2SH | WITNESS)
    spend("P2WSH DROP 1 with a 521-byte witness item (must fail PUSH_SIZE)", b'', m._p2wsh(ws), [b'\x2a' * 521, ws], P2SH | WITNESS)


def d10a():
    spend("v16 2-byte program, scriptSig NOP", H('61'), H('60020102'), [b'', b''], P2SH | WITNESS)
    ws = H('51')
    spend("P2WSH OP_1, scriptSig NOP", H('61'), m._p2wsh(ws), [ws], P2SH | WITNESS)
    spend("P2WSH OP_1, scriptSig '1 DROP'", H('5175'), m._p2wsh(ws), [ws], P2SH | WITNESS)
    spend("P2WSH OP_1, scriptSig empty", b'', m._p2wsh(ws), [ws], P2SH | WITNESS)
    spend("P2WSH OP_1, scriptSig '1' (leaves an item)", H('51'), m._p2wsh(ws), [ws], P2SH | WITNESS)
    spend("P2WSH OP_1, scriptSig NOP, no WITNESS flag", H('61'), m._p2wsh(ws), [], P2SH)


def d10b():
    redeem = H('60020102')
    spend("P2SH-v16, redeem pushed with PUSHDATA1", H('4c04') + redeem, m._p2sh(redeem), [], P2SH | WITNESS)
    spend("P2SH-v16, redeem pushed canonically", cs.push_data(redeem), m._p2sh(redeem), [], P2SH | WITNESS)
    spend("P2SH-v16, NOP-free extra push+... '0 <redeem>' ", H('00') + cs.push_data(redeem), m._p2sh(redeem), [], P2SH | WITNESS)
    ws = H('51')
    redeem = m._p2wsh(ws)
    spend("P2SH-P2WSH OP_1 canonical", cs.push_data(redeem), m._p2sh(redeem), [ws], P2SH | WITNESS)
    spend("P2SH-P2WSH OP_1 with PUSHDATA1", H('4c') + bytes([len(redeem)]) + redeem, m._p2sh(redeem), [ws], P2SH | WITNESS)
    spend("P2SH-P2WSH OP_1 with PUSHDATA2", H('4d') + len(redeem).to_bytes(2, 'little') + redeem, m._p2sh(redeem), [ws], P2SH | WITNESS)


def d11():
    k32 = m.make_key("short32", 0)
    spk = cs.push_data(k32) + H('ac91')
    spend("0 <32-byte key> CHECKSIG NOT, STRICTENC", H('00'), spk, [], P2SH | STRICTENC | WITNESS)
    spend("0 <32-byte key> CHECKSIG NOT, no STRICTENC", H('00'), spk, [], P2SH | WITNESS)
    kc = m.make_key("comp", 0)
    spend("0 <comp key> CHECKSIG NOT, STRICTENC", H('00'), cs.push_data(kc) + H('ac91'), [], P2SH | STRICTENC | WITNESS)
    kh = m.make_key("hybrid", 0)
    spend("0 <hybrid key> CHECKSIG NOT, STRICTENC", H('00'), cs.push_data(kh) + H('ac91'), [], P2SH | STRICTENC | WITNESS)
    ku = m.make_key("uncomp", 0)
    ws = cs.push_data(ku) + H('ac91')
    spend("P2WSH 0 <uncomp key> CHECKSIG NOT, WITNESS_PUBKEYTYPE", b'', m._p2wsh(ws), [b'', ws], P2SH | WITNESS | WPK)
    spend("P2WSH 0 <uncomp key> CHECKSIG NOT, no WITNESS_PUBKEYTYPE", b'', m._p2wsh(ws), [b'', ws], P2SH | WITNESS)
    for sk in ("empty", "garbage", "one_byte_30", "hashtype_only"):
        for kk in ("empty", "short32", "long34", "hybrid", "bad05", "comp"):
            for fl in (0, STRICTENC):
                if sk == "one_byte_30" and not fl:
                    continue
                ev("CHECKSIG sig=%s key=%s flags=%s" % (sk, kk, m._flag_names(fl)), H('ac'), [m.make_sig(sk, 0, H('ac')), m.make_key(kk, 0)], fl)
    # CHECKMULTISIG: keys that get examined
    code = H('ae')
    kb = m.make_key("comp", 0)
    for sigs, keys, desc in (([b''], [k32], "1-of-1 empty sig, short key"),
                             ([b''], [kb, k32], "1-of-2 empty sig, keys [good, short]: both examined"),
                             ([b''], [k32, kb], "1-of-2 empty sig, keys [short, good]"),
                             ([b'', b''], [k32, kb], "2-of-2 empty sigs, keys [short, good]: only the last key is examined"),
                             ([b'', b''], [kb, k32], "2-of-2 empty sigs, keys [good, short]"),
                             ([m.make_sig("valid", 0, code)], [kb, k32], "1-of-2 valid sig for key0, keys [good, short]: short examined first"),
                             ([m.make_sig("valid", 0, code)], [k32, kb], "1-of-2 valid sig for key0(last), keys [short, good]: short never examined"),
                             ):
        st = [b''] + sigs + [m._n(len(sigs))] + keys + [m._n(len(keys))]
        for fl in (0, STRICTENC):
            ev("CHECKMULTISIG %s flags=%s" % (desc, m._flag_names(fl)), code, st, fl)


def d12():
    spend("v1 2-byte program, empty witness, CLEANSTACK", b'', H('51020102'), [], P2SH | WITNESS | CLEANSTACK)
    redeem = H('51020102')
    spend("P2SH-v1 2-byte program, empty witness, CLEANSTACK", cs.push_data(redeem), m._p2sh(redeem), [], P2SH | WITNESS | CLEANSTACK)
    spend("v1 program, DISCOURAGE_UPGRADABLE_WITNESS_PROGRAM", b'', H('51020102'), [], P2SH | WITNESS | CLEANSTACK | cs.F_DISCOURAGE_UPGRADABLE_WITNESS_PROGRAM)
    spend("bare '1 1', CLEANSTACK (must fail)", b'', H('5151'), [], P2SH | WITNESS | CLEANSTACK)
    ws = H('5151')
    spend("P2WSH '1 1' (must fail CLEANSTACK)", b'', m._p2wsh(ws), [ws], P2SH | WITNESS | CLEANSTACK)


def d13():
    ev("4c alone", H('4c'), [], 0)
    ev("51 4d 51", H('514d51'), [], 0)
    ev("4d alone", H('4d'), [], 0)
    ev("4e 01 00 00", H('4e010000'), [], 0)
    ev("4c 00 (empty push)", H('4c00'), [], 0)
    ev("4d 0000 (empty push)", H('4d0000'), [], 0)
    ev("4e 00000000 (empty push)", H('4e00000000'), [], 0)
    ev("0 IF 4c ENDIF 1 (unexecuted truncated)", H('00634c6851'), [], 0)
    ev("4c 05 aa (truncated data)", H('4c05aa'), [], 0)


def d14():
    _sigcases(("valid",), keys=("comp", "uncomp", "hybrid", "bad05", "hybrid_wrong_parity", "long34", "offcurve", "x_ge_p", "uncomp_offcurve"), flagsets=(0, STRICTENC))
    code = H('ac')
    p = m._points()[0]
    for fb in (0, 1, 2, 3, 4, 5, 6, 7, 8, 0xff):
        ev("CHECKSIG valid sig, 33-byte key with prefix %02x" % fb, code, [m.make_sig("valid", 0, code), bytes([fb]) + p[0].to_bytes(32, 'big')], 0)
        ev("CHECKSIG valid sig, 65-byte key with prefix %02x" % fb, code, [m.make_sig("valid", 0, code), bytes([fb]) + p[0].to_bytes(32, 'big') + p[1].to_bytes(32, 'big')], 0)


def d16():
    _sigcases(("one_byte_30", "seq_cut", "seq_longlen_cut", "garbage", "hashtype_only"), keys=("comp", "empty"), flagsets=(0, cs.F_NULLFAIL))
    for blob in ('3001', '30', '3000', '300201', '30020201', '3003020101', '300402010102', '30060201010201', '3081', '30810001', '308201', '02', '0201'):
        ev("CHECKSIG sig=%s" % blob, H('ac'), [H(blob), m.make_key("comp", 0)], 0)
    spk = m._multisig(1, [m.make_key("comp", 0), m.make_key("comp", 1)]) + H('91')
    spend("1-of-2 CHECKMULTISIG NOT with garbage 3001 signature", H('00023001'), spk, [], 0)


def d17():
    code = H('ae')
    k0 = m.make_key("comp", 0)
    s0 = m.make_sig("valid", 0, code)
    for mv in ('01', '0100', '01000000', '0100000000'):
        for nv in ('01', '0100', '01000000', '0100000000', '010000000000'):
            ev("CHECKMULTISIG m=%s n=%s" % (mv, nv), code, [b'', b'', s0, H(mv), k0, H(nv)], 0)


def d18():
    L = m.CTX_LOCKED
    C = m.CHK_LOCKED
    for st in ('00', '0000', '05', '0500', '', '64', '6400', '65', '0000000000', '000000000000', '80', '0080'):
        ev("CLTV [%s] ctx=(seq 5, locktime 100, v2)" % st, H('b1'), [H(st)], CLTV, L, C)
        ev("CSV  [%s] ctx=(seq 5, locktime 100, v2)" % st, H('b2'), [H(st)], CSV, L, C)
    ev("CLTV [0500] MINIMALDATA", H('b1'), [H('0500')], CLTV | MINIMALDATA, L, C)
    ev("CSV [0500] MINIMALDATA", H('b2'), [H('0500')], CSV | MINIMALDATA, L, C)


def d20():
    spend("v1 2-byte program, witness [521 bytes]", b'', H('51020102'), [b'\x2a' * 521], P2SH | WITNESS)
    ws = H('7551')
    spend("P2WSH DROP 1 with a 521-byte witness item (must fail PUSH_SIZE)", b'', m._p2wsh(ws), [b'\x2a' * 521, ws], P2SH | WITNESS)
    pub = cs.pubkey_bytes(cs.ec_mul(1000), True)
    spend("P2WPKH with a 521-byte first witness item (must fail)", b'', m._p2wpkh(pub), [b'\x2a' * 521, pub], P2SH | WITNESS)


def d21():
    ev("initial stack 1001, 2DROP", H('6d'), [b'\x01'] * 1001, 0)


ALL = dict((k[1:], v) for k, v in list(globals().items()) if k.startswith('d') and k[1:2].isdigit())
ALL['15'] = d14
for a in sys.argv[1:] or sorted(ALL, key=lambda s: (int(s.rstrip('ab')), s)):
    print("== defect", a)
    n0 = len(OKS)
    ALL[a]()
    print("== defect %s: %d/%d reproducers agree with Core" % (a, sum(OKS[n0:]), len(OKS) - n0))
