from pycoin.symbols.btc import network as N
from pycoin.ecdsa.secp256k1 import secp256k1_generator as G
import base64
k=N.keys.private(secret_exponent=111793196543967404139194827996419963236210979610743141064269745943111491389390); m='two\nlines'
n=G.order()
def mk(h,r,s): return base64.b64encode(bytes([h])+r.to_bytes(32,'big')+s.to_bytes(32,'big')).decode()
good=N.msg.sign(k,m)
raw=base64.b64decode(good); gr=int.from_bytes(raw[1:33],'big'); gs=int.from_bytes(raw[33:],'big')
z=N.msg.hash_for_signing(m)
# signature whose recovered key is the point at infinity: R=kG, s=z/k
kk=424242; R=kk*G; sinf=z*G.inverse(kk)%n
cases=[('good',good),('abc','abc'),('nonascii','é'),('r-no-point',mk(27,5,gs)),('r=0',mk(27,0,gs)),('r=n',mk(27,n,gs)),
       ('hdr29',mk(29,gr,gs)),('hdr34',mk(34,gr,gs)),('s=0',mk(raw[0],gr,0)),('inf',mk(27+(R[1]&1),R[0],sinf))]
for tgt in (k, k.address()):
    out=[]
    for nm,sg in cases:
        try: out.append((nm, N.msg.verify(tgt, sg, m)))
        except Exception as e: out.append((nm,'RAISES '+type(e).__name__))
    print(out)
