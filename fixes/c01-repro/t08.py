# a Core-valid signature whose nonce point has x >= n (recid 2/3), built without a private key: Q = r^-1 (sR - zG)
from pycoin.symbols.btc import network as N
from pycoin.ecdsa.secp256k1 import secp256k1_generator as G
import base64
n=G.order(); p=G.p(); m='two\nlines'; z=N.msg.hash_for_signing(m)
def mk(h,r,s): return base64.b64encode(bytes([h])+r.to_bytes(32,'big')+s.to_bytes(32,'big')).decode()
x=n+12345
while True:
    try: R=G.points_for_x(x)[1]; break
    except ValueError: x+=1
r=x-n; s=987654321
inv=G.inverse(r)
Q=(s*inv)*R + (-(inv*z))*G
assert G.verify(Q, z, (r,s))
key=N.keys.public(tuple(Q), is_compressed=True)
for nm,sig in (("valid recid 3", mk(27+3+4, r, s)), ("recid 2 (wrong parity)", mk(27+2+4, r, s)), ("non-canonical r=x recid 1", mk(27+1+4, x, s)), ("recid 3 on r with r+n>=p", mk(27+3+4, p-n+5, s))):
    for tgt in (key, key.address()):
        try: print(nm, N.msg.verify(tgt, sig, m))
        except Exception as e: print(nm, "RAISES", type(e).__name__)
k=N.keys.private(secret_exponent=111793196543967404139194827996419963236210979610743141064269745943111491389390)
print("ordinary", N.msg.verify(k, N.msg.sign(k, m), m), N.msg.verify(k.address(), N.msg.sign(k, m), m))
