from pycoin.ecdsa.secp256k1 import secp256k1_generator as G
from pycoin.ecdsa.Generator import Generator
from pycoin.symbols.btc import network as N
from pycoin.satoshi.der import sigencode_der
n=G.order(); d=12345; Q=d*G; r=(777*G)[0]%n
Gp=Generator(G._p,G._a,G._b,(G[0],G[1]),n)
for g in (G, Gp, Generator(7,2,1,(1,5),5)):
    try:
        print(type(g).__name__, g.verify(Q, (-r*d)%n, (r,5)) if g is not Gp and g is not G else g.verify(Q, (-r*d)%n, (r,5)))
    except Exception as e: print(type(g).__name__, "raises", type(e).__name__)
g=Generator(7,2,1,(1,5),5)
try: print(g.verify((1,5),1,(4,1)))
except Exception as e: print("toy raises", type(e).__name__)
k=N.keys.private(secret_exponent=d)
try: print("Key.verify", k.verify(((-r*d)%n).to_bytes(32,'big'), sigencode_der(r,5)))
except Exception as e: print("Key.verify raises", type(e).__name__)
