from pycoin.symbols.btc import network as N
from pycoin.ecdsa.secp256k1 import secp256k1_generator as G
import base64
n=G.order(); p=G.p(); m='two\nlines'; z=N.msg.hash_for_signing(m)
def mk(h,r,s): return base64.b64encode(bytes([h])+r.to_bytes(32,'big')+s.to_bytes(32,'big')).decode()
R=31337*G; r=R[0]; h=27+(R[1]&1)+4; inv=G.inverse(r)
def keyfor(s): return N.keys.public(tuple((s*inv)*R + (-(inv*z))*G), is_compressed=True)
s0=5555
print("valid small s", N.msg.verify(keyfor(s0), mk(h,r,s0), m), " s+n", N.msg.verify(keyfor(s0), mk(h,r,s0+n), m), N.msg.verify(keyfor(s0).address(), mk(h,r,s0+n), m))
kz=N.keys.public(tuple((-(inv*z))*G), is_compressed=True)
print("s=0", N.msg.verify(kz, mk(h,r,0), m), N.msg.verify(kz.address(), mk(h,r,0), m))
x=n+12345
while True:
    try: Rb=G.points_for_x(x)[1]; break
    except ValueError: x+=1
rb=x-n; i2=G.inverse(rb); Qb=(77*i2)*Rb+(-(i2*z))*G
kb=N.keys.public(tuple(Qb), is_compressed=True)
print("r>=n non-canonical", N.msg.verify(kb, mk(27+1+4, x, 77), m), N.msg.verify(kb.address(), mk(27+1+4, x, 77), m))
k=N.keys.private(secret_exponent=111793196543967404139194827996419963236210979610743141064269745943111491389390)
for rr in (0,n):
    try: print("r=%d.."%(rr%1000), N.msg.verify(k.address(), mk(27,rr,5), m))
    except Exception as e: print("r..", "RAISES", type(e).__name__)
print("ordinary", N.msg.verify(k, N.msg.sign(k, m), m), N.msg.verify(k.address(), N.msg.sign(k, m), m))
