from pycoin.ecdsa.secp256k1 import secp256k1_generator as G
from pycoin.ecdsa.Generator import Generator
n=G.order(); z=0x1234567890abcdef<<100
r,s=G.sign(999,z)
def show(g,z,r,s):
    ks=g.possible_public_pairs_for_signature(z,(r,s)); return (len(ks), [g.verify(k,z,(r,s)) for k in ks])
print("valid", show(G,z,r,s), 999*G in G.possible_public_pairs_for_signature(z,(r,s)))
for (rr,ss) in ((r+n if r+n < G._p else 1+n, s),(r,0),(r,s+n),(1,n)):
    try: print(show(G,z,rr,ss))
    except Exception as e: print("raises", type(e).__name__)
try: print(show(G,z,0,0))
except Exception as e: print("r=0 raises", type(e).__name__)
t=Generator(3,2,1,(0,1),7)
print("toy n>p r>=p", show(t,1,3,1), "r<p", show(t,1,1,1))
